// clock driver (C13, C14): SystemClock / SystemClockLoop with an injected millisecond counter and
// scripted reference / backup clocks that log every call. Line protocol, one reply line per command.
// The "step"/"step2" modes enumerate (phase, gap) pairs in-process and compare against 64-bit
// arithmetic T + (m - m0) / 1000 (the property's own formula).
#include "verif_acetime.h"
#include <stdio.h>
#include <stdlib.h>
#include <string.h>
#include <string>
#include <vector>
using namespace ace_time;
using namespace ace_time::clock;

static unsigned long long gMillis = 0;   // unbounded counter
static int gWrapBits = 64;                // 32: report the counter modulo 2^32 (C13 only)

static unsigned long reported_millis() {
  if (gWrapBits == 32) return (unsigned long) (gMillis & 0xFFFFFFFFULL);
  if (gWrapBits == 16) return (unsigned long) (gMillis & 0xFFFFULL);
  return (unsigned long) gMillis;
}

static std::string gLog;

class ScriptClock: public Clock {
  public:
    explicit ScriptClock(char tag): mTag(tag) {}
    acetime_t getNow() const override { log("g"); return mNow; }
    void sendRequest() const override { log("s"); }
    bool isResponseReady() const override { log(mReady ? "q1" : "q0"); return mReady; }
    acetime_t readResponse() const override {
      char b[32]; snprintf(b, sizeof(b), "r:%d", (int) mResponse); log(b); return mResponse;
    }
    void setNow(acetime_t t) override {
      char b[32]; snprintf(b, sizeof(b), "n:%d", (int) t); log(b); mNow = t;
    }
    acetime_t mNow = 0;
    acetime_t mResponse = 0;
    bool mReady = false;
  private:
    void log(const char* what) const {
      gLog += mTag; gLog += what; gLog += ' ';
    }
    char mTag;
};

// a reference clock that cannot be set (NTP, GPS: Clock::setNow() is documented as a no-op there) and reports its own time
class ReadOnlyClock: public ScriptClock {
  public:
    explicit ReadOnlyClock(char tag): ScriptClock(tag) { mNow = 700000000; }
    void setNow(acetime_t /*t*/) override {}
};

class VClock: public SystemClockLoop {
  public:
    VClock(Clock* ref, Clock* backup, uint16_t sync, uint16_t initial, uint16_t timeout):
        SystemClockLoop(ref, backup, sync, initial, timeout) {}
    unsigned long clockMillis() const override { return reported_millis(); }
};

static VClock* gClock = nullptr;
static ScriptClock* gRef = nullptr;
static ScriptClock* gBackup = nullptr;

static void make(int wiring, int sync, int initial, int timeout) {
  delete gClock; gClock = nullptr;
  if (gBackup != gRef) delete gBackup;
  delete gRef;
  gRef = gBackup = nullptr;
  switch (wiring) {
    case 0: break;
    case 1: gRef = new ScriptClock('R'); gBackup = gRef; break;
    case 2: gRef = new ScriptClock('R'); gBackup = new ScriptClock('B'); break;
    case 3: gRef = new ScriptClock('R'); break;
    case 4: gBackup = new ScriptClock('B'); break;
    case 6: gRef = new ReadOnlyClock('R'); gBackup = new ScriptClock('B'); break;
  }
  gClock = new VClock(gRef, gBackup, (uint16_t) sync, (uint16_t) initial, (uint16_t) timeout);
  gLog.clear();
}

static int serve() {
  char line[256];
  setvbuf(stdout, nullptr, _IOLBF, 0);
  while (fgets(line, sizeof(line), stdin)) {
    char cmd[32];
    if (sscanf(line, "%31s", cmd) != 1) continue;
    const char* rest = line + strlen(cmd);
    if (!strcmp(cmd, "NEW")) {
      int w, s, i, t, wrap; unsigned long long m0;
      if (sscanf(rest, "%d %d %d %d %llu %d", &w, &s, &i, &t, &m0, &wrap) != 6) { printf("= BAD\n"); continue; }
      gMillis = m0; gWrapBits = wrap;
      make(w, s, i, t);
      printf("= OK\n");
    } else if (!gClock) {
      printf("= NOCLOCK\n");
    } else if (!strcmp(cmd, "M")) {
      unsigned long long d; sscanf(rest, "%llu", &d);
      gMillis += d;
      printf("= %llu\n", gMillis);
    } else if (!strcmp(cmd, "SET")) {
      long long t; sscanf(rest, "%lld", &t);
      gLog.clear();
      gClock->setNow((acetime_t) t);
      printf("= %s\n", gLog.c_str());
    } else if (!strcmp(cmd, "GET")) {
      acetime_t now = gClock->getNow();
      printf("= %d %d %d\n", (int) now, (int) gClock->getLastSyncTime(), gClock->isInit() ? 1 : 0);
    } else if (!strcmp(cmd, "SETUP")) {
      gLog.clear();
      gClock->setup();
      printf("= %s\n", gLog.c_str());
    } else if (!strcmp(cmd, "FORCE")) {
      gLog.clear();
      if (gRef) gClock->forceSync();
      printf("= %s\n", gLog.c_str());
    } else if (!strcmp(cmd, "REF")) {
      int ready; long long v; sscanf(rest, "%d %lld", &ready, &v);
      if (gRef) { gRef->mReady = ready != 0; gRef->mResponse = (acetime_t) v; gRef->mNow = (acetime_t) v; }
      printf("= OK\n");
    } else if (!strcmp(cmd, "BK")) {
      long long v; sscanf(rest, "%lld", &v);
      if (gBackup) gBackup->mNow = (acetime_t) v;
      printf("= OK\n");
    } else if (!strcmp(cmd, "STEP")) {
      unsigned long long d; int ready; long long v;
      if (sscanf(rest, "%llu %d %lld", &d, &ready, &v) != 3) { printf("= BAD\n"); continue; }
      gMillis += d;
      if (gRef) { gRef->mReady = ready != 0; gRef->mResponse = (acetime_t) v; gRef->mNow = (acetime_t) v; }
      gLog.clear();
      gClock->loop();
      std::string ev = gLog;
      gLog.clear();
      acetime_t now = gClock->getNow();
      printf("= %d %d | %s\n", (int) now, (int) gClock->getLastSyncTime(), ev.c_str());
    } else if (!strcmp(cmd, "STEPQ")) {
      // advance and call loop() WITHOUT reading the clock afterwards (an application that shows the time rarely)
      unsigned long long d; int ready; long long v;
      if (sscanf(rest, "%llu %d %lld", &d, &ready, &v) != 3) { printf("= BAD\n"); continue; }
      gMillis += d;
      if (gRef) { gRef->mReady = ready != 0; gRef->mResponse = (acetime_t) v; gRef->mNow = (acetime_t) v; }
      gLog.clear();
      gClock->loop();
      printf("= Q | %s\n", gLog.c_str());
      gLog.clear();
    } else if (!strcmp(cmd, "LOOP")) {
      gLog.clear();
      gClock->loop();
      std::string ev = gLog;
      gLog.clear();
      acetime_t now = gClock->getNow();
      printf("= %d %d | %s\n", (int) now, (int) gClock->getLastSyncTime(), ev.c_str());
    } else {
      printf("= BADCMD\n");
    }
  }
  return 0;
}

// step <phaseLo> <phaseHi> <highbits> <wrapbits> <gapspec>   gapspec = range:lo:hi:stride | list:g1,g2,...
// For every phase p in [phaseLo,phaseHi) and gap g: set the clock to T at counter m0 = highbits + p,
// advance by g, read once. Expected T + g/1000 (64-bit arithmetic).
static int step(unsigned long long pLo, unsigned long long pHi, unsigned long long high, int wrap, const char* spec) {
  std::vector<unsigned long long> gaps;
  bool isRange = !strncmp(spec, "range:", 6);
  unsigned long long gLo = 0, gHi = 0, gStride = 1;
  if (isRange) {
    if (sscanf(spec + 6, "%llu:%llu:%llu", &gLo, &gHi, &gStride) != 3) return 2;
  } else if (!strncmp(spec, "list:", 5)) {
    const char* q = spec + 5;
    while (*q) { gaps.push_back(strtoull(q, (char**) &q, 10)); if (*q == ',') q++; }
  } else return 2;
  unsigned long long n = 0, bad = 0, nontriv = 0;
  gWrapBits = wrap;
  const acetime_t T = 1000000;
  for (unsigned long long p = pLo; p < pHi; p++) {
    size_t gi = 0;
    for (unsigned long long g = gLo; ; ) {
      if (isRange) { if (g > gHi) break; } else { if (gi >= gaps.size()) break; g = gaps[gi]; }
      gMillis = high + p;
      VClock c(nullptr, nullptr, 3600, 5, 1000);
      c.setNow(T);
      gMillis += g;
      acetime_t r = c.getNow();
      long long want = (long long) T + (long long) (g / 1000);
      n++;
      bool wrapped = ((high + p) >> 16) != ((high + p + g) >> 16);
      if (g >= 1000 || wrapped) nontriv++;
      if ((long long) r != want || !c.isInit() || c.getLastSyncTime() != T) {
        if (bad < 10) printf("MISMATCH step m0=%llu gap=%llu read=%d want=%lld\n", high + p, g, (int) r, want);
        bad++;
      }
      if (isRange) g += gStride; else gi++;
    }
  }
  printf("STEP n=%llu nontrivial=%llu bad=%llu\n", n, nontriv, bad);
  return 0;
}

// step2 <phaseLo> <phaseHi> <high> <wrap>: two consecutive gaps from small boundary sets; the second gap is
// limited to 65535 - carried remainder.
static int step2(unsigned long long pLo, unsigned long long pHi, unsigned long long high, int wrap) {
  static const unsigned long long G1[] = {0, 1, 999, 1000, 1001, 1999, 2000, 32767, 32768, 33999, 64535, 64536};
  unsigned long long n = 0, bad = 0;
  gWrapBits = wrap;
  const acetime_t T = -5;
  for (unsigned long long p = pLo; p < pHi; p++) {
    for (unsigned long long g1 : G1) {
      unsigned long long rem = g1 % 1000;
      unsigned long long lim = 65535 - rem;
      unsigned long long G2[] = {0, 1, 999 - rem, 1000 - rem, 1001 - rem, 1999, 32768, 64536, lim - 1, lim};
      for (unsigned long long g2 : G2) {
        if (g2 > lim) continue;
        gMillis = high + p;
        VClock c(nullptr, nullptr, 3600, 5, 1000);
        c.setNow(T);
        gMillis += g1;
        acetime_t r1 = c.getNow();
        gMillis += g2;
        acetime_t r2 = c.getNow();
        long long w1 = (long long) T + (long long) (g1 / 1000);
        long long w2 = (long long) T + (long long) ((g1 + g2) / 1000);
        n++;
        if (r1 != w1 || r2 != w2 || r2 < r1) {
          if (bad < 10) printf("MISMATCH step2 m0=%llu g1=%llu g2=%llu read=%d,%d want=%lld,%lld\n", high + p, g1, g2,
              (int) r1, (int) r2, w1, w2);
          bad++;
        }
      }
    }
  }
  printf("STEP2 n=%llu nontrivial=%llu bad=%llu\n", n, n, bad);
  return 0;
}

int main(int argc, char** argv) {
  if (argc >= 7 && !strcmp(argv[1], "step"))
    return step(strtoull(argv[2], 0, 10), strtoull(argv[3], 0, 10), strtoull(argv[4], 0, 10), atoi(argv[5]), argv[6]);
  if (argc >= 6 && !strcmp(argv[1], "step2"))
    return step2(strtoull(argv[2], 0, 10), strtoull(argv[3], 0, 10), strtoull(argv[4], 0, 10), atoi(argv[5]));
  return serve();
}
