// print driver (C15): prints values through printTo() and parses text back. No oracle logic.
#include "verif_acetime.h"
#include <stdio.h>
#include <stdlib.h>
#include <string.h>
#include <string>
using namespace ace_time;

static std::string unhex(const char* h) {
  std::string o;
  size_t n = strlen(h);
  for (size_t i = 0; i + 1 < n; i += 2) {
    char b[3] = {h[i], h[i + 1], 0};
    o.push_back((char) strtol(b, nullptr, 16));
  }
  return o;
}

static std::string hex(const std::string& s) {
  static const char* d = "0123456789abcdef";
  std::string o;
  for (unsigned char c : s) { o.push_back(d[c >> 4]); o.push_back(d[c & 15]); }
  return o.empty() ? "-" : o;
}

int main() {
  char line[512];
  ExtendedZoneProcessor xp; BasicZoneProcessor bp;
  while (fgets(line, sizeof(line), stdin)) {
    char cmd[16];
    if (sscanf(line, "%15s", cmd) != 1) continue;
    const char* rest = line + strlen(cmd);
    if (!strcmp(cmd, "LDT")) {
      int y, mo, d, h, mi, s;
      sscanf(rest, "%d %d %d %d %d %d", &y, &mo, &d, &h, &mi, &s);
      LocalDateTime v = LocalDateTime::forComponents((int16_t) y, (uint8_t) mo, (uint8_t) d, (uint8_t) h, (uint8_t) mi, (uint8_t) s);
      Print p; v.printTo(p);
      LocalDateTime b = LocalDateTime::forDateString(p.buf.c_str());
      LocalDateTime bf = LocalDateTime::forDateString((const __FlashStringHelper*) p.buf.c_str());
      Print pd; v.localDate().printTo(pd);
      Print pt; v.localTime().printTo(pt);
      LocalDate bd = LocalDate::forDateString(p.buf.c_str());
      LocalTime bt = LocalTime::forTimeString(pt.buf.c_str());
      printf("LDT %d %d %d %d %d %d|%s|%d %d %d|%s|%s|%d %d\n", y, mo, d, h, mi, s, hex(p.buf).c_str(), v.isError() ? 1 : 0,
          (b == v) ? 1 : 0, (bf == v) ? 1 : 0, hex(pd.buf).c_str(), hex(pt.buf).c_str(), (bd == v.localDate()) ? 1 : 0,
          (bt == v.localTime()) ? 1 : 0);
    } else if (!strcmp(cmd, "OFF")) {
      int m; sscanf(rest, "%d", &m);
      TimeOffset o = TimeOffset::forMinutes((int16_t) m);
      Print p; o.printTo(p);
      TimeOffset b = TimeOffset::forOffsetString(p.buf.c_str());
      printf("OFF %d|%s|%d %d\n", m, hex(p.buf).c_str(), b.isError() ? 1 : 0, (int) b.toMinutes());
    } else if (!strcmp(cmd, "ODT")) {
      int y, mo, d, h, mi, s, off;
      sscanf(rest, "%d %d %d %d %d %d %d", &y, &mo, &d, &h, &mi, &s, &off);
      OffsetDateTime v = OffsetDateTime::forComponents((int16_t) y, (uint8_t) mo, (uint8_t) d, (uint8_t) h, (uint8_t) mi, (uint8_t) s,
          TimeOffset::forMinutes((int16_t) off));
      Print p; v.printTo(p);
      OffsetDateTime b = OffsetDateTime::forDateString(p.buf.c_str());
      OffsetDateTime bf = OffsetDateTime::forDateString((const __FlashStringHelper*) p.buf.c_str());
      printf("ODT %d %d %d %d %d %d %d|%s|%d %d %d %d\n", y, mo, d, h, mi, s, off, hex(p.buf).c_str(), v.isError() ? 1 : 0,
          (b == v) ? 1 : 0, (bf == v) ? 1 : 0, (int) b.timeOffset().toMinutes());
    } else if (!strcmp(cmd, "ZDT")) {
      char db[4]; int zi; long long t; int managed;
      sscanf(rest, "%3s %d %lld %d", db, &zi, &t, &managed);
      TimeZone tz = TimeZone::forError();
      static ExtendedZoneManager<2>* xm = new ExtendedZoneManager<2>(zonedbx::kZoneRegistrySize, zonedbx::kZoneRegistry);
      static BasicZoneManager<2>* bm = new BasicZoneManager<2>(zonedb::kZoneRegistrySize, zonedb::kZoneRegistry);
      if (db[0] == 'x') {
        if (zi < 0 || zi >= zonedbx::kZoneRegistrySize) { printf("ZDT BAD\n"); continue; }
        tz = managed ? xm->createForZoneIndex((uint16_t) zi) : TimeZone::forZoneInfo(zonedbx::kZoneRegistry[zi], &xp);
      } else {
        if (zi < 0 || zi >= zonedb::kZoneRegistrySize) { printf("ZDT BAD\n"); continue; }
        tz = managed ? bm->createForZoneIndex((uint16_t) zi) : TimeZone::forZoneInfo(zonedb::kZoneRegistry[zi], &bp);
      }
      ZonedDateTime v = ZonedDateTime::forEpochSeconds((acetime_t) t, tz);
      Print p; v.printTo(p);
      ZonedDateTime b = ZonedDateTime::forDateString(p.buf.c_str());
      // the value printed for the PREVIOUS request (another zone, possibly on the same shared processor) must still
      // print the same text now that this zone has used the processor
      static ZonedDateTime prevV = ZonedDateTime::forError();
      static std::string prevText;
      int reprintOk = 1;
      if (!prevText.empty()) { Print q; prevV.printTo(q); reprintOk = (q.buf == prevText) ? 1 : 0; }
      prevV = v; prevText = p.buf;
      printf("ZDT %s %d %lld %d|%s|%d %d %d %d %d %d\n", db, zi, t, managed, hex(p.buf).c_str(), v.isError() ? 1 : 0,
          b.isError() ? 1 : 0, (int) b.toEpochSeconds(), (int) b.timeOffset().toMinutes(), (int) v.timeOffset().toMinutes(), reprintOk);
    } else if (!strcmp(cmd, "ZMAN")) {
      int sd, dd; long long t;
      sscanf(rest, "%d %d %lld", &sd, &dd, &t);
      TimeZone tz = TimeZone::forTimeOffset(TimeOffset::forMinutes((int16_t) sd), TimeOffset::forMinutes((int16_t) dd));
      ZonedDateTime v = ZonedDateTime::forEpochSeconds((acetime_t) t, tz);
      Print p; v.printTo(p);
      Print ps; tz.printShortTo(ps);
      ZonedDateTime b = ZonedDateTime::forDateString(p.buf.c_str());
      printf("ZMAN %d %d %lld|%s|%d %d %d %d|%s\n", sd, dd, t, hex(p.buf).c_str(), v.isError() ? 1 : 0, b.isError() ? 1 : 0,
          (int) b.toEpochSeconds(), (int) b.timeOffset().toMinutes(), hex(ps.buf).c_str());
    } else if (!strcmp(cmd, "ZC")) {
      // zoned date-time from components in a manual zone (reaches years outside the int32 epoch-seconds range)
      int y, mo, d, h, mi, sec, off;
      sscanf(rest, "%d %d %d %d %d %d %d", &y, &mo, &d, &h, &mi, &sec, &off);
      TimeZone tz = TimeZone::forTimeOffset(TimeOffset::forMinutes((int16_t) off));
      ZonedDateTime v = ZonedDateTime::forComponents((int16_t) y, (uint8_t) mo, (uint8_t) d, (uint8_t) h, (uint8_t) mi, (uint8_t) sec, tz);
      Print p; v.printTo(p);
      ZonedDateTime b = ZonedDateTime::forDateString(p.buf.c_str());
      printf("ZC %d %d %d %d %d %d %d|%s|%d %d | %d %d %d %d %d %d %d\n", y, mo, d, h, mi, sec, off, hex(p.buf).c_str(), v.isError() ? 1 : 0,
          b.isError() ? 1 : 0, (int) b.year(), (int) b.month(), (int) b.day(), (int) b.hour(), (int) b.minute(), (int) b.second(),
          (int) b.timeOffset().toMinutes());
    } else if (!strcmp(cmd, "ERR")) {
      Print a, b, c, d, e, f, g;
      LocalDate::forError().printTo(a);
      LocalTime::forError().printTo(b);
      LocalDateTime::forError().printTo(c);
      OffsetDateTime::forError().printTo(d);
      ZonedDateTime::forError().printTo(e);
      TimeZone::forError().printTo(f);
      TimeZone::forError().printShortTo(g);
      printf("ERR %s|%s|%s|%s|%s|%s|%s\n", hex(a.buf).c_str(), hex(b.buf).c_str(), hex(c.buf).c_str(), hex(d.buf).c_str(),
          hex(e.buf).c_str(), hex(f.buf).c_str(), hex(g.buf).c_str());
      // error values created from invalid epoch seconds print the same placeholders
      Print h, i;
      ZonedDateTime::forEpochSeconds(LocalDate::kInvalidEpochSeconds, TimeZone::forUtc()).printTo(h);
      OffsetDateTime::forEpochSeconds(LocalDate::kInvalidEpochSeconds, TimeOffset()).printTo(i);
      printf("ERR2 %s|%s\n", hex(h.buf).c_str(), hex(i.buf).c_str());
    } else if (!strcmp(cmd, "ZLONG")) {
      // a zone record with a name of the given length (a copy of a shipped record with another name pointer)
      int len; long long t; sscanf(rest, "%d %lld", &len, &t);
      static std::string names[200];
      if (len < 3 || len >= 200) { printf("ZLONG BAD\n"); continue; }
      names[len] = "T/" + std::string((size_t) len - 2, 'a');
      for (int k = 2; k < len; k++) names[len][k] = (char) ('a' + (k % 26));
      static const extended::ZoneInfo* xi[200]; static const basic::ZoneInfo* bi[200];
      const extended::ZoneInfo& sx = zonedbx::kZoneAmerica_Los_Angeles; const basic::ZoneInfo& sb = zonedb::kZoneAmerica_Los_Angeles;
      if (!xi[len]) {
        xi[len] = new extended::ZoneInfo{names[len].c_str(), sx.zoneId, sx.zoneContext, sx.transitionBufSize, sx.numEras, sx.eras};
        bi[len] = new basic::ZoneInfo{names[len].c_str(), sb.zoneId, sb.zoneContext, sb.transitionBufSize, sb.numEras, sb.eras};
      }
      TimeZone tx = TimeZone::forZoneInfo(xi[len], &xp), tb = TimeZone::forZoneInfo(bi[len], &bp);
      Print p1, p2, p3, p4;
      ZonedDateTime::forEpochSeconds((acetime_t) t, tx).printTo(p1);
      ZonedDateTime::forEpochSeconds((acetime_t) t, tb).printTo(p2);
      tx.printTo(p3); tb.printShortTo(p4);
      printf("ZLONG %d %lld|%s|%s|%s|%s\n", len, t, hex(p1.buf).c_str(), hex(p2.buf).c_str(), hex(p3.buf).c_str(), hex(p4.buf).c_str());
    } else if (!strcmp(cmd, "ERR3")) {
      // values that are errors because of ONE invalid part: "<kind> <isError> <printed>" per value
      int y, mo, d, h, mi, sec, off;
      sscanf(rest, "%d %d %d %d %d %d %d", &y, &mo, &d, &h, &mi, &sec, &off);
      TimeOffset o = (off == 99999) ? TimeOffset::forError() : TimeOffset::forMinutes((int16_t) off);
      LocalDate ld = LocalDate::forComponents((int16_t) y, (uint8_t) mo, (uint8_t) d);
      LocalTime lt = LocalTime::forComponents((uint8_t) h, (uint8_t) mi, (uint8_t) sec);
      LocalDateTime ldt = LocalDateTime::forComponents((int16_t) y, (uint8_t) mo, (uint8_t) d, (uint8_t) h, (uint8_t) mi, (uint8_t) sec);
      OffsetDateTime odt = OffsetDateTime::forComponents((int16_t) y, (uint8_t) mo, (uint8_t) d, (uint8_t) h, (uint8_t) mi, (uint8_t) sec, o);
      TimeZone tz = (off == 99999) ? TimeZone::forError() : TimeZone::forTimeOffset(o);
      ZonedDateTime zdt = ZonedDateTime::forComponents((int16_t) y, (uint8_t) mo, (uint8_t) d, (uint8_t) h, (uint8_t) mi, (uint8_t) sec, tz);
      ZonedDateTime zx = ZonedDateTime::forComponents((int16_t) y, (uint8_t) mo, (uint8_t) d, (uint8_t) h, (uint8_t) mi, (uint8_t) sec,
          TimeZone::forZoneInfo(&zonedbx::kZoneAmerica_Los_Angeles, &xp));
      OffsetDateTime ox = OffsetDateTime::forComponents((int16_t) y, (uint8_t) mo, (uint8_t) d, (uint8_t) h, (uint8_t) mi, (uint8_t) sec,
          TimeZone::forZoneInfo(&zonedbx::kZoneAmerica_Los_Angeles, &xp).getUtcOffset(ldt.toEpochSeconds()));
      Print a, b, c, e, f, g, i2;
      ld.printTo(a); lt.printTo(b); ldt.printTo(c); odt.printTo(e); zdt.printTo(f); zx.printTo(g); ox.printTo(i2);
      printf("ERR3 %d %d %d %d %d %d %d|%d %s|%d %s|%d %s|%d %s|%d %s|%d %s|%d %s\n", y, mo, d, h, mi, sec, off,
          ld.isError() ? 1 : 0, hex(a.buf).c_str(), lt.isError() ? 1 : 0, hex(b.buf).c_str(), ldt.isError() ? 1 : 0, hex(c.buf).c_str(),
          odt.isError() ? 1 : 0, hex(e.buf).c_str(), zdt.isError() ? 1 : 0, hex(f.buf).c_str(), zx.isError() ? 1 : 0, hex(g.buf).c_str(),
          ox.isError() ? 1 : 0, hex(i2.buf).c_str());
    } else if (!strcmp(cmd, "PARSE")) {
      char kind[16], hx[400];
      hx[0] = 0;
      sscanf(rest, "%15s %399s", kind, hx);
      std::string s = (hx[0] == '-' && hx[1] == 0) ? std::string() : unhex(hx);
      int err = -1;
      if (!strcmp(kind, "date")) err = LocalDate::forDateString(s.c_str()).isError();
      else if (!strcmp(kind, "time")) err = LocalTime::forTimeString(s.c_str()).isError();
      else if (!strcmp(kind, "ldt")) err = LocalDateTime::forDateString(s.c_str()).isError();
      else if (!strcmp(kind, "ldtF")) err = LocalDateTime::forDateString((const __FlashStringHelper*) s.c_str()).isError();
      else if (!strcmp(kind, "off")) err = TimeOffset::forOffsetString(s.c_str()).isError();
      else if (!strcmp(kind, "odt")) err = OffsetDateTime::forDateString(s.c_str()).isError();
      else if (!strcmp(kind, "odtF")) err = OffsetDateTime::forDateString((const __FlashStringHelper*) s.c_str()).isError();
      else if (!strcmp(kind, "zdt")) err = ZonedDateTime::forDateString(s.c_str()).isError();
      printf("PARSE %s %zu %d\n", kind, s.size(), err);
    }
  }
  return 0;
}
