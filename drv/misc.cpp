// misc driver: C17 (TimePeriod, TimeOffset, mutation helpers), C18 (rule-day resolution).
// Prints what the library computes; comparisons happen in the Python harness except for the
// 4e6-pair compareTo sweep, where the expected value is the sign of the difference of the inputs.
#include "verif_acetime.h"
#include <stdio.h>
#include <stdlib.h>
#include <string.h>
using namespace ace_time;

static int periods(long lo, long hi) {
  for (long s = lo; s <= hi; s++) {
    TimePeriod p((int32_t) s);
    TimePeriod n = p;
    time_period_mutation::negate(n);
    printf("P %ld %d %d %d %d %d | %d %d %d %d %d\n", s, (int) p.hour(), (int) p.minute(), (int) p.second(), (int) p.sign(),
        (int) p.toSeconds(), (int) n.hour(), (int) n.minute(), (int) n.second(), (int) n.sign(), (int) n.toSeconds());
  }
  return 0;
}

static int compare(long stride, long phase) {
  // all ordered pairs of the stratified subset {-921599 + phase + k*stride} plus boundary values
  long vals[4096]; int n = 0;
  long special[] = {-921599, -921598, -86400, -3600, -61, -60, -59, -1, 0, 1, 59, 60, 61, 3599, 3600, 86399, 86400, 921598, 921599};
  for (long v : special) vals[n++] = v;
  for (long v = -921599 + phase; v <= 921599 && n < 4096; v += stride) vals[n++] = v;
  unsigned long long cnt = 0, bad = 0;
  for (int i = 0; i < n; i++) for (int j = 0; j < n; j++) {
    TimePeriod a((int32_t) vals[i]), b((int32_t) vals[j]);
    int want = vals[i] < vals[j] ? -1 : (vals[i] > vals[j] ? 1 : 0);
    int got = a.compareTo(b);
    bool eq = (a == b);
    cnt++;
    if (got != want || eq != (want == 0) || (a != b) == eq) {
      if (bad < 10) printf("MISMATCH compare %ld %ld got=%d want=%d eq=%d\n", vals[i], vals[j], got, want, eq ? 1 : 0);
      bad++;
    }
  }
  // the same signed lengths reached through other constructions: negation of the opposite length (gives a negative zero for
  // 0) and the component constructor; compareTo must still order by signed length (operator== is not examined here)
  auto make = [](long v, int how) {
    if (how == 1) { TimePeriod p((int32_t) -v); time_period_mutation::negate(p); return p; }
    if (how == 2) { long a = v < 0 ? -v : v; return TimePeriod((uint8_t) (a / 3600), (uint8_t) (a / 60 % 60), (uint8_t) (a % 60), (int8_t) (v < 0 ? -1 : 1)); }
    if (how == 3) { long a = v < 0 ? -v : v; return TimePeriod((uint8_t) (a / 3600), (uint8_t) (a / 60 % 60), (uint8_t) (a % 60), (int8_t) (v <= 0 ? -1 : 1)); }
    return TimePeriod((int32_t) v);
  };
  unsigned long long cnt2 = 0;
  for (int i = 0; i < n; i += (i < 19 ? 1 : 7)) for (int j = 0; j < n; j += (j < 19 ? 1 : 5)) {
    for (int ka = 0; ka < 4; ka++) for (int kb = 0; kb < 4; kb++) {
      if (ka == 0 && kb == 0) continue;
      TimePeriod a = make(vals[i], ka), b = make(vals[j], kb);
      int want = vals[i] < vals[j] ? -1 : (vals[i] > vals[j] ? 1 : 0);
      int got = a.compareTo(b);
      cnt2++;
      if (got != want || a.toSeconds() != vals[i]) {
        if (bad < 10) printf("MISMATCH compare-constructed %ld(%d) %ld(%d) got=%d want=%d seconds=%ld\n", vals[i], ka, vals[j], kb, got, want, (long) a.toSeconds());
        bad++;
      }
    }
  }
  printf("COMPARE n=%llu values=%d bad=%llu\n", cnt + cnt2, n, bad);
  return 0;
}

static int offsets() {
  for (int h = -128; h <= 127; h++) for (int m = -128; m <= 127; m++) {
    TimeOffset o = TimeOffset::forHourMinute((int8_t) h, (int8_t) m);
    int8_t bh, bm;
    o.toHourMinute(bh, bm);
    printf("O %d %d %d %d %d %d %d\n", h, m, (int) o.toMinutes(), (int) o.toSeconds(), (int) bh, (int) bm, o.isError() ? 1 : 0);
  }
  for (int v = -32768; v <= 32767; v++) {
    TimeOffset o = TimeOffset::forMinutes((int16_t) v);
    printf("M %d %d %d %d %d\n", v, (int) o.toMinutes(), (int) o.toSeconds(), o.isError() ? 1 : 0, o.isZero() ? 1 : 0);
  }
  for (int h = -128; h <= 127; h++) {
    TimeOffset o = TimeOffset::forHours((int8_t) h);
    printf("H %d %d\n", h, (int) o.toMinutes());
  }
  for (int v = -1000; v <= 1000; v++) {
    TimeOffset o = TimeOffset::forMinutes((int16_t) v);
    time_offset_mutation::increment15Minutes(o);
    printf("I %d %d\n", v, (int) o.toMinutes());
  }
  return 0;
}

static int mutations() {
  ExtendedZoneProcessor proc;
  TimeZone tz = TimeZone::forZoneInfo(&zonedbx::kZoneAmerica_Los_Angeles, &proc);
  for (int v = 0; v < 256; v++) {
    ZonedDateTime z = ZonedDateTime::forComponents(2010, 5, 6, 7, 8, 9, tz);
    z.yearTiny((int8_t) v); zoned_date_time_mutation::incrementYear(z);
    printf("Y %d %d\n", (int) (int8_t) v, (int) z.yearTiny());
    z = ZonedDateTime::forComponents(2010, 5, 6, 7, 8, 9, tz);
    z.month((uint8_t) v); zoned_date_time_mutation::incrementMonth(z);
    printf("Mo %d %d\n", v, (int) z.month());
    z = ZonedDateTime::forComponents(2010, 5, 6, 7, 8, 9, tz);
    z.day((uint8_t) v); zoned_date_time_mutation::incrementDay(z);
    printf("D %d %d\n", v, (int) z.day());
    z = ZonedDateTime::forComponents(2010, 5, 6, 7, 8, 9, tz);
    z.hour((uint8_t) v); zoned_date_time_mutation::incrementHour(z);
    printf("Hr %d %d %d %d %d %d\n", v, (int) z.hour(), (int) z.year(), (int) z.month(), (int) z.day(), (int) z.minute());
    z = ZonedDateTime::forComponents(2010, 5, 6, 7, 8, 9, tz);
    z.minute((uint8_t) v); zoned_date_time_mutation::incrementMinute(z);
    printf("Mi %d %d %d %d\n", v, (int) z.minute(), (int) z.hour(), (int) z.second());
    TimePeriod p(1, 2, 3, 1);
    p.minute((uint8_t) v); time_period_mutation::incrementMinute(p);
    printf("PMi %d %d %d %d %d\n", v, (int) p.minute(), (int) p.hour(), (int) p.second(), (int) p.sign());
    TimePeriod q(1, 2, 3, -1);
    q.hour((uint8_t) v); time_period_mutation::incrementHour(q);
    printf("PH24 %d %d %d\n", v, (int) q.hour(), (int) q.sign());
    for (int lim = 1; lim < 256; lim++) {
      TimePeriod r(1, 2, 3, 1);
      r.hour((uint8_t) v); time_period_mutation::incrementHour(r, (uint8_t) lim);
      printf("PH %d %d %d %d\n", v, lim, (int) r.hour(), (int) r.minute());
    }
  }
  return 0;
}

// month lengths of the proleptic Gregorian calendar, independent of the library (bounds the enumeration below)
static int own_dim(int y, int m) {
  static const int d[12] = {31, 28, 31, 30, 31, 30, 31, 31, 30, 31, 30, 31};
  bool leap = (y % 4 == 0 && y % 100 != 0) || y % 400 == 0;
  return d[m - 1] + ((m == 2 && leap) ? 1 : 0);
}

// C18: days <yearLo> <yearHi>: calcStartDayOfMonth for every (year, month, dow 0..7, dom -31..31)
static int days(int y0, int y1) {
  for (int y = y0; y <= y1; y++) for (int m = 1; m <= 12; m++) for (int dow = 0; dow <= 7; dow++)
    for (int dom = -31; dom <= 31; dom++) {
      int dim = own_dim(y, m);
      int lim = dom < 0 ? -dom : dom;
      if (dow == 0 && (dom < 1 || dom > dim)) continue;
      if (lim > dim) continue;    // the limit date must exist
      basic::MonthDay md = BasicZoneProcessor::calcStartDayOfMonth((int16_t) y, (uint8_t) m, (uint8_t) dow, (int8_t) dom);
      printf("%d %d %d %d %d %d\n", y, m, dow, dom, (int) md.month, (int) md.day);
    }
  // the same cases in another order (years descending, day-of-month outside, weekday innermost): a pure function gives the
  // same answers whatever was asked before
  for (int y = y1; y >= y0; y--) for (int m = 12; m >= 1; m--) for (int dom = 31; dom >= -31; dom--)
    for (int dow = 7; dow >= 0; dow--) {
      int dim = own_dim(y, m);
      int lim = dom < 0 ? -dom : dom;
      if (dow == 0 && (dom < 1 || dom > dim)) continue;
      if (lim > dim) continue;
      basic::MonthDay md = BasicZoneProcessor::calcStartDayOfMonth((int16_t) y, (uint8_t) m, (uint8_t) dow, (int8_t) dom);
      printf("R %d %d %d %d %d %d\n", y, m, dow, dom, (int) md.month, (int) md.day);
    }
  return 0;
}

// C18: one case (for replay / sanitizer runs on admitted cases): day <y> <m> <dow> <dom>
static int day1(int y, int m, int dow, int dom) {
  basic::MonthDay md = BasicZoneProcessor::calcStartDayOfMonth((int16_t) y, (uint8_t) m, (uint8_t) dow, (int8_t) dom);
  printf("%d %d %d %d %d %d\n", y, m, dow, dom, (int) md.month, (int) md.day);
  return 0;
}

// C18: daylist: cases "y m dow dom" from stdin
static int daylist() {
  int y, m, dow, dom;
  setvbuf(stdout, nullptr, _IOLBF, 0);
  while (scanf("%d %d %d %d", &y, &m, &dow, &dom) == 4) day1(y, m, dow, dom);
  return 0;
}

int main(int argc, char** argv) {
  if (argc < 2) return 2;
  if (!strcmp(argv[1], "daylist")) return daylist();
  if (!strcmp(argv[1], "periods") && argc == 4) return periods(atol(argv[2]), atol(argv[3]));
  if (!strcmp(argv[1], "compare") && argc == 4) return compare(atol(argv[2]), atol(argv[3]));
  if (!strcmp(argv[1], "offsets")) return offsets();
  if (!strcmp(argv[1], "mutations")) return mutations();
  if (!strcmp(argv[1], "days") && argc == 4) return days(atoi(argv[2]), atoi(argv[3]));
  if (!strcmp(argv[1], "day") && argc == 6) return day1(atoi(argv[2]), atoi(argv[3]), atoi(argv[4]), atoi(argv[5]));
  return 2;
}
