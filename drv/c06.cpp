// C06 driver: calendar / epoch arithmetic. Thin: prints what the library says.
// The only oracle logic in here is civil_from_days()/days_from_civil() (a
// structurally different algorithm, used for the 2^32 sweep) whose own output is
// validated against Python's datetime by the harness on every run ("oracle" mode).
#include "verif_acetime.h"
#include <stdio.h>
#include <stdlib.h>
#include <string.h>
using namespace ace_time;

// days since 1970-01-01 -> civil (H. Hinnant's public-domain algorithm)
static void civil_from_days(int64_t z, int& y, unsigned& m, unsigned& d) {
  z += 719468;
  const int64_t era = (z >= 0 ? z : z - 146096) / 146097;
  const unsigned doe = (unsigned) (z - era * 146097);
  const unsigned yoe = (doe - doe / 1460 + doe / 36524 - doe / 146096) / 365;
  const int64_t yy = (int64_t) yoe + era * 400;
  const unsigned doy = doe - (365 * yoe + yoe / 4 - yoe / 100);
  const unsigned mp = (5 * doy + 2) / 153;
  d = doy - (153 * mp + 2) / 5 + 1;
  m = mp < 10 ? mp + 3 : mp - 9;
  y = (int) (yy + (m <= 2));
}

static int64_t floordiv(int64_t a, int64_t b) {
  int64_t q = a / b;
  if ((a % b != 0) && ((a < 0) != (b < 0))) q--;
  return q;
}

static void oracle_fields(int64_t e, int& y, unsigned& mo, unsigned& d, unsigned& h,
    unsigned& mi, unsigned& s) {
  int64_t days = floordiv(e, 86400);
  int64_t sec = e - days * 86400;
  civil_from_days(days + 10957, y, mo, d);
  h = (unsigned) (sec / 3600);
  mi = (unsigned) ((sec / 60) % 60);
  s = (unsigned) (sec % 60);
}

static int mode_dates() {
  // every (year, month, day) in [1872..2128] x [0..13] x [0..32]
  for (int y = 1872; y <= 2128; y++) {
    for (int m = 0; m <= 13; m++) {
      for (int d = 0; d <= 32; d++) {
        LocalDate ld = LocalDate::forComponents((int16_t) y, (uint8_t) m, (uint8_t) d);
        bool err = ld.isError();
        printf("D %d %d %d %d", y, m, d, err ? 1 : 0);
        if (!err) {
          acetime_t ed = ld.toEpochDays();
          LocalDate back = LocalDate::forEpochDays(ed);
          LocalDate bu = LocalDate::forUnixDays(ld.toUnixDays());
          LocalDate inc = ld; local_date_mutation::incrementOneDay(inc);
          LocalDate dec = ld; local_date_mutation::decrementOneDay(dec);
          printf(" %d %d %d %d %d %d", (int) ed, (int) ld.dayOfWeek(),
              (int) LocalDate::daysInMonth((int16_t) y, (uint8_t) m),
              LocalDate::isLeapYear((int16_t) y) ? 1 : 0,
              (int) ld.toUnixDays(), (int) ld.year());
          printf(" %d %d %d %d", back.isError() ? 1 : 0, (int) back.year(), (int) back.month(),
              (int) back.day());
          printf(" %d %d %d", (int) inc.yearTiny(), (int) inc.month(), (int) inc.day());
          printf(" %d %d %d", (int) dec.yearTiny(), (int) dec.month(), (int) dec.day());
          printf(" %d %d %d", (int) bu.year(), (int) bu.month(), (int) bu.day());
          // date -> seconds (only where the product is representable)
          long long es = (long long) ed * 86400;
          if (es > INT32_MIN && es <= INT32_MAX) {
            LocalDate bs = LocalDate::forEpochSeconds((acetime_t) es);
            printf(" S %d %d %d %d", (int) ld.toEpochSeconds(), (int) bs.year(), (int) bs.month(),
                (int) bs.day());
          } else {
            printf(" S - - - -");
          }
        } else {
          printf(" E %d %d", (int) ld.toEpochDays(), (int) ld.toEpochSeconds());
        }
        printf("\n");
      }
    }
  }
  // error sentinels
  LocalDate e1 = LocalDate::forEpochDays(LocalDate::kInvalidEpochDays);
  LocalDate e2 = LocalDate::forEpochSeconds(LocalDate::kInvalidEpochSeconds);
  LocalDate e3 = LocalDate::forUnixDays(LocalDate::kInvalidEpochDays);
  LocalDate e4 = LocalDate::forUnixSeconds(LocalDate::kInvalidEpochSeconds);
  LocalDate e5 = LocalDate::forError();
  printf("X %d %d %d %d %d\n", e1.isError(), e2.isError(), e3.isError(), e4.isError(), e5.isError());
  LocalDateTime t1 = LocalDateTime::forEpochSeconds(LocalDate::kInvalidEpochSeconds);
  LocalDateTime t2 = LocalDateTime::forUnixSeconds(LocalDate::kInvalidEpochSeconds);
  LocalDateTime t3 = LocalDateTime::forError();
  printf("Y %d %d %d %d %d %d\n", t1.isError(), t2.isError(), t3.isError(),
      (int) (t1.toEpochSeconds() == LocalDate::kInvalidEpochSeconds),
      (int) (t3.toEpochDays() == LocalDate::kInvalidEpochDays),
      (int) (LocalTime::forSeconds(LocalTime::kInvalidSeconds).isError()));
  return 0;
}

static bool oracle_time_error(unsigned h, unsigned m, unsigned s) {
  // LocalTime.h: hour 0..23, minute 0..59, second 0..59; 24:00:00 is accepted.
  if (h == 24 && m == 0 && s == 0) return false;
  return !(h <= 23 && m <= 59 && s <= 59);
}

static int mode_times() {
  // all 2^24 byte triples
  unsigned long bad = 0, n = 0, valid = 0;
  for (unsigned h = 0; h < 256; h++) for (unsigned m = 0; m < 256; m++) for (unsigned s = 0; s < 256; s++) {
    LocalTime lt = LocalTime::forComponents((uint8_t) h, (uint8_t) m, (uint8_t) s);
    bool err = lt.isError();
    bool oerr = oracle_time_error(h, m, s);
    n++;
    bool mismatch = (err != oerr);
    if (!oerr) {
      valid++;
      long want = (long) h * 3600 + m * 60 + s;
      if (lt.toSeconds() != want) mismatch = true;
      if (h < 24) {
        LocalTime b = LocalTime::forSeconds((acetime_t) want);
        if (b.hour() != h || b.minute() != m || b.second() != s || b.isError()) mismatch = true;
      }
      // LocalDateTime with this time on a fixed date is not an error either
      LocalDateTime dt = LocalDateTime::forComponents(2001, 2, 3, (uint8_t) h, (uint8_t) m, (uint8_t) s);
      if (dt.isError()) mismatch = true;
    } else {
      if (lt.toSeconds() != LocalTime::kInvalidSeconds) mismatch = true;
      LocalDateTime dt = LocalDateTime::forComponents(2001, 2, 3, (uint8_t) h, (uint8_t) m, (uint8_t) s);
      if (!dt.isError() || dt.toEpochSeconds() != LocalDate::kInvalidEpochSeconds) mismatch = true;
    }
    if (mismatch && bad < 20) {
      printf("MISMATCH time %u %u %u isError=%d toSeconds=%d\n", h, m, s, err ? 1 : 0, (int) lt.toSeconds());
    }
    if (mismatch) bad++;
  }
  printf("TIMES n=%lu valid=%lu bad=%lu\n", n, valid, bad);
  // emit the forSeconds table for the harness' independent comparison
  for (long v = 0; v < 86400; v++) {
    LocalTime lt = LocalTime::forSeconds((acetime_t) v);
    printf("T %ld %d %d %d %d %d\n", v, (int) lt.hour(), (int) lt.minute(), (int) lt.second(),
        lt.isError() ? 1 : 0, (int) lt.toSeconds());
  }
  return 0;
}

// print the oracle's own answer so that Python can validate the oracle
static int mode_oracle(int argc, char** argv) {
  for (int i = 0; i < argc; i++) {
    long long e = atoll(argv[i]);
    int y; unsigned mo, d, h, mi, s;
    oracle_fields(e, y, mo, d, h, mi, s);
    printf("O %lld %d %u %u %u %u %u\n", e, y, mo, d, h, mi, s);
  }
  return 0;
}

static inline int check_epoch(int64_t e64, unsigned long& bad, unsigned long long& nontrivial) {
  acetime_t e = (acetime_t) e64;
  if (e == LocalDate::kInvalidEpochSeconds) return 0;
  LocalDateTime dt = LocalDateTime::forEpochSeconds(e);
  int y; unsigned mo, d, h, mi, s;
  oracle_fields(e64, y, mo, d, h, mi, s);
  bool ok = !dt.isError() && dt.year() == y && dt.month() == mo && dt.day() == d
      && dt.hour() == h && dt.minute() == mi && dt.second() == s
      && dt.toEpochSeconds() == e;
  // unix variants
  int64_t u = e64 + 946684800LL;
  if (u >= INT32_MIN + 1LL && u <= INT32_MAX) {
    LocalDateTime du = LocalDateTime::forUnixSeconds((acetime_t) u);
    ok = ok && du == dt && dt.toUnixSeconds() == (acetime_t) u;
  }
  LocalDate ld = LocalDate::forEpochSeconds(e);
  ok = ok && ld.year() == y && ld.month() == mo && ld.day() == d;
  if (e64 < 0 || (h == 23 && mi == 59 && s == 59) || (mo == 2 && d == 29)) nontrivial++;
  if (!ok) {
    if (bad < 20) {
      printf("MISMATCH epoch %lld got %d-%d-%d %d:%d:%d err=%d back=%d want %d-%u-%u %u:%u:%u\n",
          (long long) e64, (int) dt.year(), (int) dt.month(), (int) dt.day(), (int) dt.hour(),
          (int) dt.minute(), (int) dt.second(), dt.isError() ? 1 : 0, (int) dt.toEpochSeconds(),
          y, mo, d, h, mi, s);
    }
    bad++;
  }
  return 1;
}

// epoch <lo> <hi> <stride>: sweep [lo, hi) with stride
static int mode_epoch(long long lo, long long hi, long long stride) {
  unsigned long bad = 0; unsigned long long n = 0, nt = 0;
  for (int64_t e = lo; e < hi; e += stride) n += check_epoch(e, bad, nt);
  printf("EPOCH lo=%lld hi=%lld stride=%lld n=%llu nontrivial=%llu bad=%lu\n", lo, hi, stride, n, nt, bad);
  return 0;
}

// bounds: +-2 s round every day boundary and the int32 limits
static int mode_bounds() {
  unsigned long bad = 0; unsigned long long n = 0, nt = 0;
  for (int64_t day = -24856; day <= 24856; day++) {
    for (int k = -2; k <= 2; k++) {
      int64_t e = day * 86400 + k;
      if (e < INT32_MIN || e > INT32_MAX) continue;
      n += check_epoch(e, bad, nt);
    }
  }
  for (int k = 0; k < 200; k++) {
    n += check_epoch((int64_t) INT32_MIN + k, bad, nt);
    n += check_epoch((int64_t) INT32_MAX - k, bad, nt);
  }
  printf("EPOCH bounds n=%llu nontrivial=%llu bad=%lu\n", n, nt, bad);
  return 0;
}

// fields <e>...: what the library says for listed values (for Python cross-check)
static int mode_fields(int argc, char** argv) {
  for (int i = 0; i < argc; i++) {
    long long e = atoll(argv[i]);
    LocalDateTime dt = LocalDateTime::forEpochSeconds((acetime_t) e);
    printf("F %lld %d %d %d %d %d %d %d %d %d\n", e, (int) dt.year(), (int) dt.month(), (int) dt.day(),
        (int) dt.hour(), (int) dt.minute(), (int) dt.second(), dt.isError() ? 1 : 0,
        (int) dt.toEpochSeconds(), (int) dt.dayOfWeek());
  }
  return 0;
}

// A date (and date-time) object changed through its setters must report what a freshly built object for the same
// components reports (observers must not remember anything from before the change).
static int mode_setters() {
  unsigned long long n = 0, bad = 0;
  for (int y = 1873; y <= 2127; y += 1) for (int m = 1; m <= 12; m += 1) for (int d = 1; d <= 28; d += 9) {
    int ys[] = {1873, 1900, 1999, 2000, 2020, 2100, 2127, y ^ 1};
    for (int y2 : ys) {
      if (y2 < 1873 || y2 > 2127) continue;
      for (int how = 0; how < 4; how++) {
        LocalDate a = LocalDate::forComponents((int16_t) y, (uint8_t) m, (uint8_t) d);
        LocalDateTime b = LocalDateTime::forComponents((int16_t) y, (uint8_t) m, (uint8_t) d, 12, 34, 56);
        volatile int sink = a.dayOfWeek() + (int) a.toEpochDays() + b.localDate().dayOfWeek(); (void) sink;
        int ny = y, nm = m, nd = d;
        if (how == 0) { a.yearTiny((int8_t) (y2 - 2000)); b.yearTiny((int8_t) (y2 - 2000)); ny = y2; }
        else if (how == 1) { a.year((int16_t) y2); b.year((int16_t) y2); ny = y2; }
        else if (how == 2) { nm = (m % 12) + 1; a.month((uint8_t) nm); b.month((uint8_t) nm); }
        else { nd = (d % 28) + 1; a.day((uint8_t) nd); b.day((uint8_t) nd); }
        LocalDate f = LocalDate::forComponents((int16_t) ny, (uint8_t) nm, (uint8_t) nd);
        LocalDateTime g = LocalDateTime::forComponents((int16_t) ny, (uint8_t) nm, (uint8_t) nd, 12, 34, 56);
        n++;
        if (a.dayOfWeek() != f.dayOfWeek() || a.toEpochDays() != f.toEpochDays() || a.isError() != f.isError() || !(a == f)
            || b.localDate().dayOfWeek() != g.localDate().dayOfWeek() || b.toEpochSeconds() != g.toEpochSeconds() || b.isError() != g.isError()) {
          if (bad < 10) printf("MISMATCH setter how=%d %d-%d-%d -> %d-%d-%d dow=%d/%d(fresh %d) days=%d/%d\n", how, y, m, d, ny, nm, nd,
              (int) a.dayOfWeek(), (int) b.localDate().dayOfWeek(), (int) f.dayOfWeek(), (int) a.toEpochDays(), (int) f.toEpochDays());
          bad++;
        }
      }
    }
  }
  printf("SETTERS n=%llu bad=%llu\n", n, bad);
  return 0;
}

int main(int argc, char** argv) {
  if (argc < 2) return 2;
  if (!strcmp(argv[1], "setters")) return mode_setters();
  if (!strcmp(argv[1], "dates")) return mode_dates();
  if (!strcmp(argv[1], "times")) return mode_times();
  if (!strcmp(argv[1], "oracle")) return mode_oracle(argc - 2, argv + 2);
  if (!strcmp(argv[1], "fields")) return mode_fields(argc - 2, argv + 2);
  if (!strcmp(argv[1], "bounds")) return mode_bounds();
  if (!strcmp(argv[1], "epoch") && argc == 5) return mode_epoch(atoll(argv[2]), atoll(argv[3]), atoll(argv[4]));
  return 2;
}
