// C05 driver: instant <-> zoned date-time round trips, Unix variants, conversions, compareTo.
// All relations are identities on the instant (no external oracle needed): the driver reports
// every instance where an identity fails.
#include "verif_acetime.h"
#include <stdio.h>
#include <stdlib.h>
#include <string.h>
#include <vector>
using namespace ace_time;

static const long long UNIX = 946684800LL;
static unsigned long long gN = 0, gBad = 0, gNT = 0;

static void bad(const char* what, const char* zone, long long e, long long got, long long extra) {
  if (gBad < 15) printf("MISMATCH %s zone=%s e=%lld got=%lld extra=%lld\n", what, zone, e, got, extra);
  gBad++;
}

static inline int sgn(long long v) { return v < 0 ? -1 : (v > 0 ? 1 : 0); }

// one instant in one zone, plus conversions to the targets
static void check(const TimeZone& tz, const char* name, long long e, long long maxoff,
    const std::vector<TimeZone>& targets, const std::vector<int>& offs) {
  if (e == INT32_MIN) return;
  if (e + maxoff > INT32_MAX || e - maxoff < INT32_MIN + 1) return;   // e + offset must be representable
  gN++;
  ZonedDateTime z = ZonedDateTime::forEpochSeconds((acetime_t) e, tz);
  if (z.isError()) { bad("error", name, e, 0, 0); return; }
  if (z.toEpochSeconds() != e) bad("roundtrip", name, e, z.toEpochSeconds(), z.timeOffset().toMinutes());
  if (e + UNIX <= INT32_MAX) {
    if ((long long) z.toUnixSeconds() - (long long) z.toEpochSeconds() != UNIX) bad("unixdiff", name, e, z.toUnixSeconds(), 0);
    ZonedDateTime u = ZonedDateTime::forUnixSeconds((acetime_t) (e + UNIX), tz);
    if (!(u == z)) bad("forUnixSeconds", name, e, u.toEpochSeconds(), 0);
    OffsetDateTime o = OffsetDateTime::forUnixSeconds((acetime_t) (e + UNIX), z.timeOffset());
    if (o.toEpochSeconds() != e || (long long) o.toUnixSeconds() != e + UNIX) bad("odt-unix", name, e, o.toEpochSeconds(), 0);
  }
  // ordering by instant inside the same zone (wall fields may run backwards across a fall-back)
  static const long long kDeltas[] = {1, 59, 1800, 3599, 3600, 7200, 86400};
  for (long long d : kDeltas) {
    if (e + d + maxoff > INT32_MAX) continue;
    ZonedDateTime later = ZonedDateTime::forEpochSeconds((acetime_t) (e + d), tz);
    if (later.isError()) continue;   // outside the zone's data range
    gN++;
    if (later.timeOffset().toMinutes() != z.timeOffset().toMinutes()) gNT++;
    if (sgn(z.compareTo(later)) != -1 || sgn(later.compareTo(z)) != 1 || z.compareTo(z) != 0)
      bad("compareTo-same-zone", name, e, z.compareTo(later), d);
  }
  // ordering against instants far away (more than 2^31 s apart, half and a quarter of the range), in fixed offsets
  {
    static const long long kFar[] = {2147483648LL, 2147483649LL, 3000000000LL, 4000000000LL, 1073741824LL, 2147483647LL};
    OffsetDateTime here = OffsetDateTime::forEpochSeconds((acetime_t) e, TimeOffset::forMinutes(0));
    for (long long d : kFar) for (int sgnd = -1; sgnd <= 1; sgnd += 2) {
      long long f = e + sgnd * d;
      if (f <= (long long) INT32_MIN + 90000 || f >= (long long) INT32_MAX - 90000) continue;
      OffsetDateTime far = OffsetDateTime::forEpochSeconds((acetime_t) f, TimeOffset::forMinutes(sgnd * 330));
      ZonedDateTime farz = ZonedDateTime::forEpochSeconds((acetime_t) f, TimeZone::forTimeOffset(TimeOffset::forMinutes(-sgnd * 60)));
      ZonedDateTime herez = ZonedDateTime::forEpochSeconds((acetime_t) e, TimeZone::forUtc());
      gN += 2; gNT += 2;
      if (sgn(here.compareTo(far)) != -sgnd || sgn(far.compareTo(here)) != sgnd) bad("odt-compareTo-far", name, e, here.compareTo(far), f);
      if (sgn(herez.compareTo(farz)) != -sgnd || sgn(farz.compareTo(herez)) != sgnd) bad("compareTo-far", name, e, herez.compareTo(farz), f);
    }
  }
  OffsetDateTime od = OffsetDateTime::forEpochSeconds((acetime_t) e, z.timeOffset());
  if (od.toEpochSeconds() != e) bad("odt-roundtrip", name, e, od.toEpochSeconds(), 0);
  for (size_t i = 0; i < targets.size(); i++) {
    ZonedDateTime c = z.convertToTimeZone(targets[i]);
    gN++; gNT++;
    if (c.isError() || c.toEpochSeconds() != e) bad("convertToTimeZone", name, e, c.toEpochSeconds(), (long long) i);
    int cmp = z.compareTo(c);
    if (cmp != 0) bad("compareTo-equal-instants", name, e, cmp, (long long) i);
    if (e + 1 + maxoff <= INT32_MAX) {
      ZonedDateTime later = ZonedDateTime::forEpochSeconds((acetime_t) (e + 1), targets[i]);
      if (sgn(z.compareTo(later)) != -1 || sgn(later.compareTo(z)) != 1) bad("compareTo-order", name, e, z.compareTo(later), (long long) i);
    }
  }
  for (size_t i = 0; i < offs.size(); i++) {
    if (e + 60LL * offs[i] > INT32_MAX || e + 60LL * offs[i] < INT32_MIN + 1) continue;
    OffsetDateTime c = od.convertToTimeOffset(TimeOffset::forMinutes((int16_t) offs[i]));
    gN++;
    if (c.isError() || c.toEpochSeconds() != e || c.timeOffset().toMinutes() != offs[i]) bad("convertToTimeOffset", name, e, c.toEpochSeconds(), offs[i]);
    if (od.compareTo(c) != 0) bad("odt-compareTo", name, e, od.compareTo(c), offs[i]);
  }
}

int main(int argc, char** argv) {
  if (argc < 2) return 2;
  std::vector<TimeZone> targets;
  std::vector<int> offs = {0, 1, -1, 59, -59, 330, -210, 765, 840, -720, 960, -960};
  static ExtendedZoneProcessor xp[8]; static BasicZoneProcessor bp[8];
  static ExtendedZoneManager<2> xm(zonedbx::kZoneRegistrySize, zonedbx::kZoneRegistry);
  static BasicZoneManager<1> bm1(zonedb::kZoneRegistrySize, zonedb::kZoneRegistry);
  static BasicZoneManager<3> bm3(zonedb::kZoneRegistrySize, zonedb::kZoneRegistry);
  if (!strcmp(argv[1], "manual") && argc == 7) {
    // manual <std> <dst> <lo> <hi> <stride>
    int sd = atoi(argv[2]), dd = atoi(argv[3]);
    long long lo = atoll(argv[4]), hi = atoll(argv[5]), stride = atoll(argv[6]);
    TimeZone tz = TimeZone::forTimeOffset(TimeOffset::forMinutes((int16_t) sd), TimeOffset::forMinutes((int16_t) dd));
    targets.push_back(TimeZone::forUtc());
    targets.push_back(TimeZone::forTimeOffset(TimeOffset::forMinutes(-(int16_t) sd)));
    long long maxoff = 60LL * 960;
    long long a = 60LL * (sd + dd); if (a < 0) a = -a; if (a > maxoff) maxoff = a;
    char name[32]; snprintf(name, sizeof(name), "manual(%d,%d)", sd, dd);
    for (long long e = lo; e < hi; e += stride) check(tz, name, e, maxoff, targets, offs);
    printf("DONE n=%llu nontrivial=%llu bad=%llu\n", gN, gNT + (lo < 0 ? gN / 2 : 0), gBad);
    return 0;
  }
  if (!strcmp(argv[1], "zones")) {
    // stdin: "X i j k" target extended zone indices; "Z <x|b> <zi> <mode>" select zone (mode 0 direct, 1 managed);
    //        "T <t>" check one instant; "G <lo> <hi> <stride>" grid
    char line[256];
    TimeZone tz = TimeZone::forError();
    char name[128] = "?";
    long long maxoff = 60LL * 960;
    while (fgets(line, sizeof(line), stdin)) {
      if (line[0] == 'X') {
        targets.clear();
        char* p = line + 1; int k = 0;
        while (*p && k < 6) {
          int v = (int) strtol(p, &p, 10);
          if (v >= 0 && v < zonedbx::kZoneRegistrySize) { targets.push_back(TimeZone::forZoneInfo(zonedbx::kZoneRegistry[v], &xp[k])); k++; }
          while (*p == ' ') p++;
          if (*p == '\n') break;
        }
        targets.push_back(TimeZone::forTimeOffset(TimeOffset::forMinutes(-570), TimeOffset::forMinutes(60)));
        targets.push_back(xm.createForZoneIndex(0));
      } else if (line[0] == 'Z') {
        char db; int zi, mode;
        if (sscanf(line + 1, " %c %d %d", &db, &zi, &mode) != 3) return 3;
        if (db == 'x') {
          tz = mode ? xm.createForZoneIndex((uint16_t) zi) : TimeZone::forZoneInfo(zonedbx::kZoneRegistry[zi], &xp[7]);
          strncpy(name, extended::ZoneInfoBroker(zonedbx::kZoneRegistry[zi]).name(), sizeof(name) - 1);
        } else {
          tz = mode == 1 ? bm1.createForZoneIndex((uint16_t) zi) : (mode == 2 ? bm3.createForZoneIndex((uint16_t) zi)
              : TimeZone::forZoneInfo(zonedb::kZoneRegistry[zi], &bp[7]));
          strncpy(name, basic::ZoneInfoBroker(zonedb::kZoneRegistry[zi]).name(), sizeof(name) - 1);
        }
      } else if (line[0] == 'T') {
        check(tz, name, atoll(line + 1), maxoff, targets, offs);
      } else if (line[0] == 'G') {
        long long lo, hi, st;
        if (sscanf(line + 1, "%lld %lld %lld", &lo, &hi, &st) != 3) return 3;
        for (long long e = lo; e < hi; e += st) check(tz, name, e, maxoff, targets, offs);
      }
    }
    printf("DONE n=%llu nontrivial=%llu bad=%llu\n", gN, gNT, gBad);
    return 0;
  }
  return 2;
}
