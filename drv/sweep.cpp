// sweep driver: walks instants / wall times for zones of a compiled database and prints
// what the library reports. No oracle logic.
//
// The database namespaces are selectable at compile time so that freshly generated
// tables (C03/C20) can be driven by the same code:
//   -DVDB_X=zonedbx -DVDB_B=zonedb   (defaults)
#include "verif_acetime.h"
#include <stdio.h>
#include <stdlib.h>
#include <string.h>
#include <string>
#include <vector>
using namespace ace_time;

#ifndef VDB_X
#define VDB_X zonedbx
#endif
#ifndef VDB_B
#define VDB_B zonedb
#endif
#ifdef VDB_X_HEADER
#include VDB_X_HEADER
#endif
#ifdef VDB_B_HEADER
#include VDB_B_HEADER
#endif

struct Z {
  bool extended;
  const void* info;
  const char* name;
};

static std::vector<Z> zones(char db) {
  std::vector<Z> v;
  if (db == 'x') {
#ifndef VDB_NO_X
    for (uint16_t i = 0; i < VDB_X::kZoneRegistrySize; i++) {
      const extended::ZoneInfo* zi = VDB_X::kZoneRegistry[i];
      v.push_back({true, zi, extended::ZoneInfoBroker(zi).name()});
    }
#endif
  } else {
#ifndef VDB_NO_B
    for (uint16_t i = 0; i < VDB_B::kZoneRegistrySize; i++) {
      const basic::ZoneInfo* zi = VDB_B::kZoneRegistry[i];
      v.push_back({false, zi, basic::ZoneInfoBroker(zi).name()});
    }
#endif
  }
  return v;
}

struct State {
  int off;      // total offset minutes, 32767 = error
  int delta;    // delta minutes, 32767 = error
  char abbrev[16];
  bool operator!=(const State& o) const {
    return off != o.off || delta != o.delta || strcmp(abbrev, o.abbrev) != 0;
  }
};

static ExtendedZoneProcessor* gX;
static BasicZoneProcessor* gB;

static TimeZone mktz(const Z& z) {
  if (z.extended) {
    return TimeZone::forZoneInfo((const extended::ZoneInfo*) z.info, gX);
  }
  return TimeZone::forZoneInfo((const basic::ZoneInfo*) z.info, gB);
}

static inline State query(const TimeZone& tz, acetime_t t) {
  State s;
  TimeOffset o = tz.getUtcOffset(t);
  s.off = o.isError() ? 32767 : o.toMinutes();
  if (o.isError()) {
    s.delta = 32767;
    s.abbrev[0] = 0;
    return s;
  }
  TimeOffset d = tz.getDeltaOffset(t);
  s.delta = d.isError() ? 32767 : d.toMinutes();
  const char* a = tz.getAbbrev(t);
  strncpy(s.abbrev, a ? a : "(null)", sizeof(s.abbrev) - 1);
  s.abbrev[sizeof(s.abbrev) - 1] = 0;
  return s;
}

static void emit(long long t, const State& s) {
  printf("C %lld %d %d %s\n", t, s.off, s.delta, s.abbrev[0] ? s.abbrev : "\"\"");
}

// sweep <x|b> <first> <last> <t0> <t1> <stride>
// For each zone index in [first,last): RLE stream of states over [t0,t1); a change seen
// between two stride points is located to the second by linear scan inside the stride.
static int cmd_sweep(char db, int first, int last, long long t0, long long t1, long long stride) {
  std::vector<Z> zs = zones(db);
  if (last > (int) zs.size()) last = zs.size();
  for (int i = first; i < last; i++) {
    const Z& z = zs[i];
    // fresh processors per zone
    delete gX; delete gB; gX = new ExtendedZoneProcessor(); gB = new BasicZoneProcessor();
    gX->resetTransitionHighWater();
#if defined(SEANDST_ACETIME_VERIF)
    BasicZoneProcessor::verifDroppedTransitions() = 0;
#endif
    TimeZone tz = mktz(z);
    printf("Z %s\n", z.name);
    State prev = query(tz, (acetime_t) t0);
    emit(t0, prev);
    unsigned long long n = 1;
    long long tprev = t0;
    for (long long t = t0 + stride; ; t += stride) {
      if (t >= t1) t = t1 - 1;
      if (t <= tprev) break;
      State s = query(tz, (acetime_t) t);
      n++;
      if (s != prev) {
        // locate every change inside (tprev, t]
        State p = prev;
        for (long long u = tprev + 1; u <= t; u++) {
          State q = (u == t) ? s : query(tz, (acetime_t) u);
          n++;
          if (q != p) { emit(u, q); p = q; }
        }
        prev = s;
      }
      tprev = t;
      if (t == t1 - 1) break;
    }
    unsigned long dropped = 0;
#if defined(SEANDST_ACETIME_VERIF)
    dropped = BasicZoneProcessor::verifDroppedTransitions();
#endif
    printf("E %s n=%llu highwater=%d dropped=%lu bufsize=%d\n", z.name, n,
        z.extended ? (int) gX->getTransitionHighWater() : -1, dropped,
        z.extended ? (int) ((const extended::ZoneInfo*) z.info)->transitionBufSize : -1);
  }
  return 0;
}

static int find_zone(const std::vector<Z>& zs, const char* name) {
  for (size_t i = 0; i < zs.size(); i++) if (!strcmp(zs[i].name, name)) return i;
  return -1;
}

// probe <x|b>: stdin lines "Z <name>" / "P <t>" -> "P t off delta abbrev | y m d h mi s offmin err"
//                           "L y m d h mi s" -> local resolution
static int cmd_probe(char db) {
  std::vector<Z> zs = zones(db);
  gX = new ExtendedZoneProcessor(); gB = new BasicZoneProcessor();
  TimeZone tz = TimeZone::forError();
  char line[256];
  while (fgets(line, sizeof(line), stdin)) {
    if (line[0] == 'Z') {
      char name[128];
      if (sscanf(line + 1, "%127s", name) != 1) return 3;
      int i = find_zone(zs, name);
      if (i < 0) { printf("NOZONE %s\n", name); tz = TimeZone::forError(); continue; }
      delete gX; delete gB; gX = new ExtendedZoneProcessor(); gB = new BasicZoneProcessor();
      tz = mktz(zs[i]);
      printf("Z %s\n", name);
    } else if (line[0] == 'P') {
      long long t = atoll(line + 1);
      State s = query(tz, (acetime_t) t);
      ZonedDateTime z = ZonedDateTime::forEpochSeconds((acetime_t) t, tz);
      printf("P %lld %d %d %s | %d %d %d %d %d %d %d %d %d\n", t, s.off, s.delta,
          s.abbrev[0] ? s.abbrev : "\"\"", (int) z.year(), (int) z.month(), (int) z.day(),
          (int) z.hour(), (int) z.minute(), (int) z.second(),
          z.isError() ? 32767 : (int) z.timeOffset().toMinutes(), z.isError() ? 1 : 0,
          (int) z.toEpochSeconds());
    } else if (line[0] == 'L') {
      int y, mo, d, h, mi, sec;
      if (sscanf(line + 1, "%d %d %d %d %d %d", &y, &mo, &d, &h, &mi, &sec) != 6) return 3;
      ZonedDateTime z = ZonedDateTime::forComponents((int16_t) y, (uint8_t) mo, (uint8_t) d, (uint8_t) h,
          (uint8_t) mi, (uint8_t) sec, tz);
      acetime_t e = z.toEpochSeconds();
      ZonedDateTime r = ZonedDateTime::forEpochSeconds(e, tz);
      printf("L %d %d %d %d %d %d -> %d | %d %d %d %d %d %d %d | %d | %d\n", y, mo, d, h, mi, sec,
          z.isError() ? 1 : 0, (int) z.year(), (int) z.month(), (int) z.day(), (int) z.hour(),
          (int) z.minute(), (int) z.second(), z.isError() ? 32767 : (int) z.timeOffset().toMinutes(),
          (int) e, (r == z) ? 1 : 0);
    }
  }
  return 0;
}

// local <x|b> <first> <last>: stdin lines "W <zone-index> <wall_lo_epoch_seconds> <wall_hi> <step>"
// Wall time w is given as "seconds since 2000-01-01 00:00:00 local". For every w in [lo,hi] by step
// the driver resolves the wall time through ZonedDateTime::forComponents and prints an RLE stream
// of (chosen = w - resultEpoch, flags) where flags bit0 = isError, bit1 = not normalised
// (forEpochSeconds(result.toEpochSeconds()) != result), bit2 = offset field != chosen,
// bit3 = fields != wall fields although chosen offset maps w to itself.
static int cmd_local(char db) {
  std::vector<Z> zs = zones(db);
  gX = new ExtendedZoneProcessor(); gB = new BasicZoneProcessor();
  char line[256];
  while (fgets(line, sizeof(line), stdin)) {
    if (line[0] != 'W') continue;
    int zi; long long lo, hi, step;
    if (sscanf(line + 1, "%d %lld %lld %lld", &zi, &lo, &hi, &step) != 4) return 3;
    if (zi < 0 || zi >= (int) zs.size()) return 3;
    delete gX; delete gB; gX = new ExtendedZoneProcessor(); gB = new BasicZoneProcessor();
    TimeZone tz = mktz(zs[zi]);
    printf("W %d %lld %lld %lld\n", zi, lo, hi, step);
    long long prevChosen = 0; int prevFlags = -1;
    unsigned long long n = 0;
    for (long long w = lo; w <= hi; w += step) {
      LocalDateTime ldt = LocalDateTime::forEpochSeconds((acetime_t) w);
      ZonedDateTime z = ZonedDateTime::forComponents(ldt.year(), ldt.month(), ldt.day(), ldt.hour(),
          ldt.minute(), ldt.second(), tz);
      n++;
      int flags = 0; long long chosen = 0;
      if (z.isError()) {
        flags = 1;
      } else {
        acetime_t e = z.toEpochSeconds();
        chosen = w - (long long) e;   // = offset used to map wall -> instant, in seconds
        ZonedDateTime r = ZonedDateTime::forEpochSeconds(e, tz);
        if (!(r == z) || r.timeOffset().toMinutes() != z.timeOffset().toMinutes()) flags |= 2;
        // resulting fields are the instant shown in the result's own offset
        long long shown = (long long) z.localDateTime().toEpochSeconds();
        if (shown != (long long) e + 60LL * z.timeOffset().toMinutes()) flags |= 4;
        if (chosen == 60LL * z.timeOffset().toMinutes() && shown != w) flags |= 8;
        // encode the result's own offset in the stream too
        chosen = chosen * 100000LL + (z.timeOffset().toMinutes() + 20000);
      }
      if (flags != prevFlags || chosen != prevChosen) {
        printf("R %lld %lld %d\n", w, chosen, flags);
        prevFlags = flags; prevChosen = chosen;
      }
    }
    printf("E %llu\n", n);
  }
  return 0;
}

// windows <x|b>: stdin lines "V <zone-index> <lo> <hi>": per-second RLE over [lo,hi] with fresh processors
static int cmd_windows(char db) {
  std::vector<Z> zs = zones(db);
  gX = new ExtendedZoneProcessor(); gB = new BasicZoneProcessor();
  char line[256];
  while (fgets(line, sizeof(line), stdin)) {
    if (line[0] != 'V') continue;
    int zi; long long lo, hi;
    if (sscanf(line + 1, "%d %lld %lld", &zi, &lo, &hi) != 3) return 3;
    if (zi < 0 || zi >= (int) zs.size()) return 3;
    delete gX; delete gB; gX = new ExtendedZoneProcessor(); gB = new BasicZoneProcessor();
    TimeZone tz = mktz(zs[zi]);
    printf("V %d %lld %lld\n", zi, lo, hi);
    State prev = query(tz, (acetime_t) lo);
    emit(lo, prev);
    for (long long t = lo + 1; t <= hi; t++) {
      State s = query(tz, (acetime_t) t);
      if (s != prev) { emit(t, s); prev = s; }
    }
  }
  return 0;
}

static int cmd_list(char db) {
  std::vector<Z> zs = zones(db);
  for (size_t i = 0; i < zs.size(); i++) printf("%zu %s\n", i, zs[i].name);
  return 0;
}

int main(int argc, char** argv) {
  if (argc < 3) return 2;
  char db = argv[2][0];
  if (!strcmp(argv[1], "list")) return cmd_list(db);
  if (!strcmp(argv[1], "probe")) return cmd_probe(db);
  if (!strcmp(argv[1], "local")) return cmd_local(db);
  if (!strcmp(argv[1], "windows")) return cmd_windows(db);
  if (!strcmp(argv[1], "sweep") && argc == 8)
    return cmd_sweep(db, atoi(argv[3]), atoi(argv[4]), atoll(argv[5]), atoll(argv[6]), atoll(argv[7]));
  return 2;
}
