// C09: byte-driven op interpreter over the public AceTime surface, shared by the libFuzzer target
// (fuzz/c09_fuzz.cpp) and the generator/replay driver (drv/c09_gen.cpp).
// In-target oracle (clause b): out-of-domain arguments must give the documented error value, twice.
// UBSan reports are collected through __ubsan_on_report (recover mode); fatal errors through the
// sanitizer death callback. Both save the current input so that every site has a replay file.
#ifndef VERIF_C09_OPS_H
#define VERIF_C09_OPS_H
#include "verif_acetime.h"
#include <stdio.h>
#include <stdlib.h>
#include <string.h>
#include <string>
#include <set>
#include <vector>
using namespace ace_time;

// ---- per-input reader ----
struct Reader {
  const uint8_t* p; size_t n; size_t i;
  uint8_t u8() { return i < n ? p[i++] : 0; }
  uint32_t u32() { uint32_t v = 0; for (int k = 0; k < 4; k++) v = (v << 8) | u8(); return v; }
  bool done() const { return i >= n; }
};

static const int32_t kI32Pool[] = {
  INT32_MIN, INT32_MIN + 1, INT32_MIN + 2, INT32_MIN + 86399, INT32_MIN + 86400, INT32_MIN + 86401, INT32_MIN + 172800,
  -2145916800 /*1932-01-01*/, -2145916801, -946684800, -946684801, -86401, -86400, -86399, -1, 0, 1, 86399, 86400,
  -31536001 /*1998-12-31T23:59:59*/, -31536000 /*1999-01-01*/, -1, 1577923199 /*2049-12-31T23:59:59*/, 1577923200 /*2050*/,
  1609459199 /*2050-12-31T23:59:59*/, 1609459200 /*2051*/, 1200798847 /*unix max*/, 1200798848, 2145916799, 2145916800 /*2068*/,
  INT32_MAX - 172800, INT32_MAX - 86400, INT32_MAX - 86399, INT32_MAX - 1, INT32_MAX,
  24856, -24856, 24855, -24855, 46750, -46385, 46751, -46386 /*epoch-day limits*/, 36524, 10957, -10957,
};
static const int16_t kYearPool[] = {-32768, -1, 0, 1, 1872, 1873, 1874, 1931, 1932, 1970, 1998, 1999, 2000, 2001, 2020, 2037, 2038, 2049, 2050,
  2051, 2067, 2068, 2126, 2127, 2128, 9999, 10000, 32767};
static const uint8_t kMonthPool[] = {0, 1, 2, 3, 11, 12, 13, 255};
static const uint8_t kDayPool[] = {0, 1, 2, 28, 29, 30, 31, 32, 255};
static const uint8_t kHourPool[] = {0, 1, 2, 3, 12, 23, 24, 25, 255};
static const uint8_t kMinPool[] = {0, 1, 30, 59, 60, 61, 255};
static const int16_t kOffPool[] = {-32768, -32767, -6000, -5999, -961, -960, -959, -720, -61, -60, -59, -1, 0, 1, 59, 60, 330, 345, 765, 840, 959, 960,
  961, 5999, 6000, 32767};

template <typename T, size_t N> static T pick(Reader& r, const T (&pool)[N], bool allowRaw = true) {
  uint8_t c = r.u8();
  if (allowRaw && c >= 224) { uint32_t v = r.u32(); return (T) v; }
  return pool[c % N];
}

// ---- context visible to the report hooks ----
static char gOpDesc[256] = "";
static const uint8_t* gCurData = nullptr;
static size_t gCurSize = 0;
static const char* gOutDir = nullptr;
static unsigned long long gOps = 0, gNonTrivial = 0, gExcluded = 0;
static std::set<std::string>* gExclusions = nullptr;   // "function/argclass" keys excluded by construction
static std::set<std::string>* gSeenSites = nullptr;
static bool gAbortOnSemantic = false;

static void save_input(const char* name) {
  if (!gOutDir || !gCurData) return;
  char path[512];
  snprintf(path, sizeof(path), "%s/%s.bin", gOutDir, name);
  FILE* f = fopen(path, "rb");
  if (f) { fclose(f); return; }
  f = fopen(path, "wb");
  if (!f) return;
  fwrite(gCurData, 1, gCurSize, f);
  fclose(f);
}

static std::string sanitize_name(const std::string& s) {
  std::string o;
  for (char c : s) o.push_back((isalnum((unsigned char) c) || c == '.' || c == '-') ? c : '_');
  if (o.size() > 120) o.resize(120);
  return o;
}

extern "C" void __ubsan_get_current_report_data(const char** OutIssueKind, const char** OutMessage, const char** OutFilename,
    unsigned* OutLine, unsigned* OutCol, char** OutMemoryAddr);

extern "C" void __ubsan_on_report(void) {
  const char *kind, *msg, *file; unsigned line, col; char* addr;
  __ubsan_get_current_report_data(&kind, &msg, &file, &line, &col, &addr);
  const char* base = strrchr(file ? file : "?", '/');
  base = base ? base + 1 : (file ? file : "?");
  char key[400];
  snprintf(key, sizeof(key), "ubsan:%s:%s:%u", kind ? kind : "?", base, line);
  if (!gSeenSites) gSeenSites = new std::set<std::string>();
  if (gSeenSites->insert(key).second) {
    fprintf(stderr, "SITE %s | op=%s | %s\n", key, gOpDesc, msg ? msg : "");
    save_input(sanitize_name(key).c_str());
  }
}

static void on_death() {
  fprintf(stderr, "DEATH op=%s\n", gOpDesc);
  save_input("fatal");
}

static void semantic_fail(const char* what) {
  char key[400];
  snprintf(key, sizeof(key), "semantic:%s", what);
  if (!gSeenSites) gSeenSites = new std::set<std::string>();
  if (gSeenSites->insert(key).second) {
    fprintf(stderr, "SITE %s | op=%s | documented error value not returned\n", key, gOpDesc);
    save_input(sanitize_name(key).c_str());
  }
  if (gAbortOnSemantic) abort();
}

static bool excluded(const char* fn, const char* cls) {
  if (!gExclusions) return false;
  std::string k = std::string(fn) + "/" + cls;
  if (gExclusions->count(k)) { gExcluded++; return true; }
  return false;
}

#define OP(...) do { snprintf(gOpDesc, sizeof(gOpDesc), __VA_ARGS__); gOps++; } while (0)
#define EXPECT_ERR(cond, what) do { if (!(cond)) semantic_fail(what); } while (0)

// ---- argument classes ----
static const char* cls_epoch(int32_t e) {
  if (e == INT32_MIN) return "sentinel";
  if (e < INT32_MIN + 2 * 86400 || e > INT32_MAX - 2 * 86400) return "near-int32-limit";
  return "ordinary";
}
static const char* cls_days(int32_t d) {
  if (d == INT32_MIN) return "sentinel";
  if (d < -24855 || d > 24855) return "days-beyond-int32-seconds";
  return "ordinary";
}
static bool valid_date(int y, int m, int d) { return y >= 1873 && y <= 2127 && m >= 1 && m <= 12 && d >= 1 && d <= 31; }
static bool valid_time(int h, int m, int s) { return (h == 24 && m == 0 && s == 0) || (h <= 23 && m <= 59 && s <= 59); }
static const char* cls_date(int y, int m, int d) {
  if (!valid_date(y, m, d)) return "invalid-components";
  if (y < 1932 || y > 2067) return "year-outside-int32-seconds";
  return "ordinary";
}

static volatile long gSink;
static Print gPrinter;
static void sink(long v) { gSink += v; }
static void sinkp() { gSink += (long) gPrinter.buf.size(); gPrinter.clear(); }

// ---- zone objects (rebuilt for every input: no state leaks between iterations) ----
struct World {
  BasicZoneProcessor bp1, bp2;
  ExtendedZoneProcessor xp1, xp2;
  BasicZoneManager<2>* bm; ExtendedZoneManager<1>* xm; ExtendedZoneManager<3>* xm3;
  std::vector<TimeZone> tz;
  World(Reader& r) {
    bm = new BasicZoneManager<2>(zonedb::kZoneRegistrySize, zonedb::kZoneRegistry);
    xm = new ExtendedZoneManager<1>(zonedbx::kZoneRegistrySize, zonedbx::kZoneRegistry);
    xm3 = new ExtendedZoneManager<3>(zonedbx::kZoneRegistrySize, zonedbx::kZoneRegistry);
    uint16_t a = r.u8() * 2 % zonedbx::kZoneRegistrySize, b = r.u8() % zonedb::kZoneRegistrySize;
    tz.push_back(TimeZone::forUtc());
    tz.push_back(TimeZone::forTimeOffset(TimeOffset::forMinutes(-480), TimeOffset::forMinutes(60)));
    tz.push_back(TimeZone::forError());
    tz.push_back(TimeZone::forZoneInfo(zonedbx::kZoneRegistry[a], &xp1));
    tz.push_back(TimeZone::forZoneInfo(zonedbx::kZoneRegistry[(a + 7) % zonedbx::kZoneRegistrySize], &xp1));   // shares xp1
    tz.push_back(TimeZone::forZoneInfo(zonedb::kZoneRegistry[b], &bp1));
    tz.push_back(TimeZone::forZoneInfo(zonedb::kZoneRegistry[(b + 5) % zonedb::kZoneRegistrySize], &bp1));      // shares bp1
    tz.push_back(xm->createForZoneIndex(a));
    tz.push_back(xm->createForZoneIndex((a + 1) % zonedbx::kZoneRegistrySize));
    tz.push_back(bm->createForZoneIndex(b));
    tz.push_back(xm3->createForZoneIndex((a + 3) % zonedbx::kZoneRegistrySize));
    tz.push_back(TimeZone::forZoneInfo(&zonedbx::kZoneAmerica_Los_Angeles, &xp2));   // first use may be print/abbrev
    tz.push_back(TimeZone::forZoneInfo(&zonedb::kZoneEurope_London, &bp2));
  }
  ~World() { delete bm; delete xm; delete xm3; }
  TimeZone& any(Reader& r) { return tz[r.u8() % tz.size()]; }
};

static bool is_zone(const TimeZone& t) {
  uint8_t k = t.getType();
  return k == TimeZone::kTypeBasic || k == TimeZone::kTypeExtended || k == TimeZone::kTypeBasicManaged || k == TimeZone::kTypeExtendedManaged;
}

static void observe_date(const LocalDate& d, const char* cls) {
  sink(d.isError()); sink(d.year()); sink(d.month()); sink(d.day()); sink(d.toEpochDays()); sink(d.toUnixDays());
  if (!excluded("LocalDate::toEpochSeconds", cls)) sink(d.toEpochSeconds());
  if (!excluded("LocalDate::toUnixSeconds", cls)) sink(d.toUnixSeconds());
  if (!excluded("LocalDate::dayOfWeek", cls)) sink(d.dayOfWeek());
  if (!excluded("LocalDate::printTo", cls)) { d.printTo(gPrinter); sinkp(); }
  LocalDate e = d; sink(d.compareTo(e)); sink(d == e);
  if (!excluded("local_date_mutation", cls)) {
    local_date_mutation::incrementOneDay(e); sink(e.day());
    e = d; local_date_mutation::decrementOneDay(e); sink(e.day());
  }
  if (d.isError()) {
    EXPECT_ERR(d.toEpochDays() == LocalDate::kInvalidEpochDays, "LocalDate-error-toEpochDays");
    EXPECT_ERR(d.toEpochSeconds() == LocalDate::kInvalidEpochSeconds, "LocalDate-error-toEpochSeconds");
  }
}

static void observe_ldt(const LocalDateTime& v, const char* cls) {
  sink(v.isError()); sink(v.year()); sink(v.hour());
  sink(v.toEpochDays()); sink(v.toUnixDays());
  if (!excluded("LocalDateTime::toEpochSeconds", cls)) { sink(v.toEpochSeconds()); LocalDateTime w = v; sink(v.compareTo(w)); }
  if (!excluded("LocalDateTime::toUnixSeconds", cls)) sink(v.toUnixSeconds());
  if (!excluded("LocalDate::dayOfWeek", cls)) sink(v.dayOfWeek());
  v.printTo(gPrinter); sinkp();
  if (v.isError()) {
    EXPECT_ERR(v.toEpochSeconds() == LocalDate::kInvalidEpochSeconds, "LocalDateTime-error-toEpochSeconds");
    EXPECT_ERR(v.toEpochDays() == LocalDate::kInvalidEpochDays, "LocalDateTime-error-toEpochDays");
  }
}

static void observe_odt(const OffsetDateTime& v, const char* cls) {
  sink(v.isError()); sink(v.year()); sink(v.timeOffset().toMinutes());
  sink(v.toEpochDays()); sink(v.toUnixDays());
  if (!excluded("OffsetDateTime::toEpochSeconds", cls)) { sink(v.toEpochSeconds()); OffsetDateTime w = v; sink(v.compareTo(w)); }
  if (!excluded("OffsetDateTime::toUnixSeconds", cls)) sink(v.toUnixSeconds());
  if (!excluded("OffsetDateTime::printTo", cls)) { v.printTo(gPrinter); sinkp(); }
  if (v.isError()) EXPECT_ERR(v.toEpochSeconds() == LocalDate::kInvalidEpochSeconds, "OffsetDateTime-error-toEpochSeconds");
}

static void observe_zdt(const ZonedDateTime& v, const char* cls, World& w, Reader& r) {
  sink(v.isError()); sink(v.year()); sink(v.timeOffset().toMinutes()); sink(v.toEpochDays()); sink(v.toUnixDays());
  if (!excluded("ZonedDateTime::toEpochSeconds", cls)) {
    sink(v.toEpochSeconds());
    ZonedDateTime c = v.convertToTimeZone(w.any(r)); sink(c.isError()); sink(v.compareTo(c));
  }
  if (!excluded("ZonedDateTime::toUnixSeconds", cls)) sink(v.toUnixSeconds());
  if (!excluded("ZonedDateTime::printTo", cls)) { v.printTo(gPrinter); sinkp(); }
  if (v.isError()) EXPECT_ERR(v.toEpochSeconds() == LocalDate::kInvalidEpochSeconds, "ZonedDateTime-error-toEpochSeconds");
}

static int year_of_epoch(int32_t e) { return LocalDate::forEpochSeconds(e).year(); }

static void run_ops(const uint8_t* data, size_t size) {
  gCurData = data; gCurSize = size;
  Reader r{data, size, 0};
  World w(r);
  int steps = 0;
  while (!r.done() && steps++ < 64) {
    uint8_t op = r.u8() % 24;
    switch (op) {
      case 0: {
        int16_t y = pick(r, kYearPool); uint8_t m = pick(r, kMonthPool), d = pick(r, kDayPool);
        const char* c = cls_date(y, m, d);
        OP("LocalDate::forComponents(%d,%d,%d)[%s]", y, m, d, c);
        LocalDate v = LocalDate::forComponents(y, m, d);
        if (!valid_date(y, m, d)) { EXPECT_ERR(v.isError(), "LocalDate::forComponents-invalid"); gNonTrivial++; }
        observe_date(v, c);
        sink(LocalDate::isLeapYear(y)); sink(LocalDate::isYearValid(y));
        if (m >= 1 && m <= 12) sink(LocalDate::daysInMonth(y, m));
        break;
      }
      case 1: {
        int32_t d = pick(r, kI32Pool); uint8_t which = r.u8() % 2;
        const char* c = cls_days(d);
        OP("LocalDate::for%sDays(%d)[%s]", which ? "Unix" : "Epoch", d, c);
        if (excluded(which ? "LocalDate::forUnixDays" : "LocalDate::forEpochDays", c)) break;
        LocalDate v = which ? LocalDate::forUnixDays(d) : LocalDate::forEpochDays(d);
        if (d == INT32_MIN) { EXPECT_ERR(v.isError(), "LocalDate::forEpochDays-sentinel"); gNonTrivial++; }
        observe_date(v, v.isError() ? "invalid-components" : cls_date(v.year(), v.month(), v.day()));
        break;
      }
      case 2: {
        int32_t e = pick(r, kI32Pool); uint8_t which = r.u8() % 2;
        const char* c = cls_epoch(e);
        OP("LocalDate::for%sSeconds(%d)[%s]", which ? "Unix" : "Epoch", e, c);
        if (excluded(which ? "LocalDate::forUnixSeconds" : "LocalDate::forEpochSeconds", c)) break;
        LocalDate v = which ? LocalDate::forUnixSeconds(e) : LocalDate::forEpochSeconds(e);
        if (e == INT32_MIN) { EXPECT_ERR(v.isError(), "LocalDate::forEpochSeconds-sentinel"); gNonTrivial++; }
        observe_date(v, v.isError() ? "invalid-components" : cls_date(v.year(), v.month(), v.day()));
        break;
      }
      case 3: {
        uint8_t h = pick(r, kHourPool), m = pick(r, kMinPool), s = pick(r, kMinPool);
        OP("LocalTime::forComponents(%d,%d,%d)", h, m, s);
        LocalTime v = LocalTime::forComponents(h, m, s);
        if (!valid_time(h, m, s)) { EXPECT_ERR(v.isError() && v.toSeconds() == LocalTime::kInvalidSeconds, "LocalTime-invalid"); gNonTrivial++; }
        sink(v.toSeconds()); v.printTo(gPrinter); sinkp(); LocalTime u = v; sink(v.compareTo(u));
        int32_t secs = pick(r, kI32Pool);
        const char* c = (secs == INT32_MIN) ? "sentinel" : ((secs < 0 || secs >= 86400) ? "out-of-day" : "ordinary");
        OP("LocalTime::forSeconds(%d)[%s]", secs, c);
        if (!excluded("LocalTime::forSeconds", c)) {
          LocalTime t = LocalTime::forSeconds(secs);
          if (secs == INT32_MIN) EXPECT_ERR(t.isError(), "LocalTime::forSeconds-sentinel");
          sink(t.toSeconds()); t.printTo(gPrinter); sinkp();
        }
        break;
      }
      case 4: {
        int16_t y = pick(r, kYearPool); uint8_t mo = pick(r, kMonthPool), d = pick(r, kDayPool), h = pick(r, kHourPool), mi = pick(r, kMinPool), s = pick(r, kMinPool);
        const char* c = cls_date(y, mo, d);
        OP("LocalDateTime::forComponents(%d,%d,%d,%d,%d,%d)[%s]", y, mo, d, h, mi, s, c);
        LocalDateTime v = LocalDateTime::forComponents(y, mo, d, h, mi, s);
        if (!valid_date(y, mo, d) || !valid_time(h, mi, s)) { EXPECT_ERR(v.isError(), "LocalDateTime::forComponents-invalid"); gNonTrivial++; }
        observe_ldt(v, c);
        break;
      }
      case 5: {
        int32_t e = pick(r, kI32Pool); uint8_t which = r.u8() % 2;
        const char* c = cls_epoch(e);
        OP("LocalDateTime::for%sSeconds(%d)[%s]", which ? "Unix" : "Epoch", e, c);
        if (excluded(which ? "LocalDateTime::forUnixSeconds" : "LocalDateTime::forEpochSeconds", c)) break;
        LocalDateTime v = which ? LocalDateTime::forUnixSeconds(e) : LocalDateTime::forEpochSeconds(e);
        if (e == INT32_MIN) { EXPECT_ERR(v.isError(), "LocalDateTime::forEpochSeconds-sentinel"); gNonTrivial++; }
        observe_ldt(v, c);
        break;
      }
      case 6: {
        int16_t m = pick(r, kOffPool);
        OP("TimeOffset::forMinutes(%d)", m);
        TimeOffset o = TimeOffset::forMinutes(m);
        int8_t hh, mm; o.toHourMinute(hh, mm); sink(hh); sink(o.toSeconds()); sink(o.isZero());
        if (m == INT16_MIN) EXPECT_ERR(o.isError(), "TimeOffset-sentinel");
        if (!excluded("TimeOffset::printTo", (m < -5999 || m > 5999) ? "beyond-99h" : "ordinary")) { o.printTo(gPrinter); sinkp(); }
        time_offset_mutation::increment15Minutes(o); sink(o.toMinutes());
        TimeOffset p = TimeOffset::forHourMinute((int8_t) r.u8(), (int8_t) r.u8()); sink(p.toMinutes());
        sink(TimeOffset::forHours((int8_t) r.u8()).toMinutes());
        break;
      }
      case 7: {
        int32_t e = pick(r, kI32Pool); int16_t om = pick(r, kOffPool); uint8_t which = r.u8() % 2;
        long long shifted = (long long) e + 60LL * om;
        const char* c = (e == INT32_MIN) ? "sentinel" : (om == INT16_MIN ? "error-offset" :
            ((shifted > INT32_MAX - 2 * 86400LL || shifted < INT32_MIN + 2 * 86400LL || e > INT32_MAX - 2 * 86400 || e < INT32_MIN + 2 * 86400) ? "near-int32-limit" : "ordinary"));
        OP("OffsetDateTime::for%sSeconds(%d,%d)[%s]", which ? "Unix" : "Epoch", e, om, c);
        if (excluded(which ? "OffsetDateTime::forUnixSeconds" : "OffsetDateTime::forEpochSeconds", c)) break;
        TimeOffset off = TimeOffset::forMinutes(om);
        OffsetDateTime v = which ? OffsetDateTime::forUnixSeconds(e, off) : OffsetDateTime::forEpochSeconds(e, off);
        if (e == INT32_MIN || om == INT16_MIN) { EXPECT_ERR(v.isError(), "OffsetDateTime::forEpochSeconds-sentinel"); gNonTrivial++; }
        observe_odt(v, c);
        if (!excluded("OffsetDateTime::convertToTimeOffset", c)) {
          OffsetDateTime cv = v.convertToTimeOffset(TimeOffset::forMinutes(pick(r, kOffPool, false) % 961));
          sink(cv.isError());
        }
        break;
      }
      case 8: {
        int16_t y = pick(r, kYearPool); uint8_t mo = pick(r, kMonthPool), d = pick(r, kDayPool), h = pick(r, kHourPool), mi = pick(r, kMinPool), s = pick(r, kMinPool);
        int16_t om = pick(r, kOffPool);
        const char* c = (om == INT16_MIN) ? "error-offset" : cls_date(y, mo, d);
        OP("OffsetDateTime::forComponents(%d,%d,%d,%d,%d,%d,%d)[%s]", y, mo, d, h, mi, s, om, c);
        OffsetDateTime v = OffsetDateTime::forComponents(y, mo, d, h, mi, s, TimeOffset::forMinutes(om));
        if (!valid_date(y, mo, d) || !valid_time(h, mi, s) || om == INT16_MIN) { EXPECT_ERR(v.isError(), "OffsetDateTime::forComponents-invalid"); gNonTrivial++; }
        observe_odt(v, c);
        break;
      }
      case 9: case 10: {
        int32_t e = pick(r, kI32Pool); TimeZone& tz = w.any(r); uint8_t which = r.u8() % 2;
        const char* c = cls_epoch(e);
        OP("ZonedDateTime::for%sSeconds(%d, tz type %d id %u)[%s]", which ? "Unix" : "Epoch", e, (int) tz.getType(), (unsigned) tz.getZoneId(), c);
        if (excluded(which ? "ZonedDateTime::forUnixSeconds" : "ZonedDateTime::forEpochSeconds", c)) break;
        int32_t ee = e;
        if (which && e != INT32_MIN) { if ((long long) e - 946684800LL < INT32_MIN + 1LL) break; ee = e - 946684800; }
        for (int rep = 0; rep < 2; rep++) {
          ZonedDateTime v = which ? ZonedDateTime::forUnixSeconds(e, tz) : ZonedDateTime::forEpochSeconds(e, tz);
          bool mustErr = (e == INT32_MIN) || tz.isError();
          if (!mustErr && is_zone(tz)) { int y = year_of_epoch(ee); if (y < 1998 || y > 2051) mustErr = true; }
          if (mustErr) { EXPECT_ERR(v.isError(), "ZonedDateTime::forEpochSeconds-out-of-range"); gNonTrivial++; }
          observe_zdt(v, c, w, r);
        }
        break;
      }
      case 11: {
        int16_t y = pick(r, kYearPool); uint8_t mo = pick(r, kMonthPool), d = pick(r, kDayPool), h = pick(r, kHourPool), mi = pick(r, kMinPool), s = pick(r, kMinPool);
        TimeZone& tz = w.any(r);
        const char* c = cls_date(y, mo, d);
        OP("ZonedDateTime::forComponents(%d,%d,%d,%d,%d,%d, tz type %d id %u)[%s]", y, mo, d, h, mi, s, (int) tz.getType(), (unsigned) tz.getZoneId(), c);
        if (excluded("ZonedDateTime::forComponents", c)) break;
        for (int rep = 0; rep < 2; rep++) {
          ZonedDateTime v = ZonedDateTime::forComponents(y, mo, d, h, mi, s, tz);
          bool mustErr = !valid_date(y, mo, d) || !valid_time(h, mi, s) || tz.isError();
          if (!mustErr && is_zone(tz) && (y < 1998 || y > 2051)) mustErr = true;
          if (mustErr) { EXPECT_ERR(v.isError(), "ZonedDateTime::forComponents-out-of-range"); gNonTrivial++; }
          observe_zdt(v, c, w, r);
        }
        break;
      }
      case 12: case 13: {
        int32_t e = pick(r, kI32Pool); TimeZone& tz = w.any(r); uint8_t kind = r.u8() % 3;
        const char* c = cls_epoch(e);
        OP("TimeZone(type %d id %u)::%s(%d)[%s]", (int) tz.getType(), (unsigned) tz.getZoneId(), kind == 0 ? "getUtcOffset" : kind == 1 ? "getDeltaOffset" : "getAbbrev", e, c);
        bool outOfRange = is_zone(tz) && (e == INT32_MIN || year_of_epoch(e) < 1998 || year_of_epoch(e) > 2051);
        for (int rep = 0; rep < 2; rep++) {
          if (kind == 0) { TimeOffset o = tz.getUtcOffset(e); if (outOfRange || tz.isError()) { EXPECT_ERR(o.isError(), "getUtcOffset-out-of-range"); gNonTrivial++; } sink(o.toMinutes()); }
          else if (kind == 1) { TimeOffset o = tz.getDeltaOffset(e); if (outOfRange || tz.isError()) { EXPECT_ERR(o.isError(), "getDeltaOffset-out-of-range"); gNonTrivial++; } sink(o.toMinutes()); }
          else { const char* a = tz.getAbbrev(e); if (outOfRange || tz.isError()) { EXPECT_ERR(a && a[0] == 0, "getAbbrev-out-of-range"); gNonTrivial++; } sink(a ? (long) strlen(a) : -1); }
        }
        break;
      }
      case 14: {
        TimeZone& tz = w.any(r);
        OP("TimeZone(type %d id %u)::print/data", (int) tz.getType(), (unsigned) tz.getZoneId());
        tz.printTo(gPrinter); sinkp(); tz.printShortTo(gPrinter); sinkp();
        TimeZoneData dta = tz.toTimeZoneData(); sink(dta.type);
        sink(tz.getStdOffset().toMinutes()); sink(tz.isUtc()); sink(tz.isDst()); sink(tz == w.any(r));
        TimeZone copy = tz; copy.setStdOffset(TimeOffset::forMinutes(pick(r, kOffPool))); copy.setDstOffset(TimeOffset::forMinutes(pick(r, kOffPool)));
        sink(copy.getUtcOffset(0).toMinutes());
        break;
      }
      case 15: {
        int32_t s = pick(r, kI32Pool);
        const char* c = (s == INT32_MIN) ? "int32-min" : ((s < -921599 || s > 921599) ? "beyond-255h" : "ordinary");
        OP("TimePeriod(%d)[%s]", s, c);
        if (excluded("TimePeriod::TimePeriod", c)) break;
        TimePeriod p(s); sink(p.toSeconds()); p.printTo(gPrinter); sinkp();
        TimePeriod q(r.u8(), r.u8(), r.u8(), (int8_t) r.u8()); sink(q.toSeconds()); sink(p.compareTo(q)); q.printTo(gPrinter); sinkp();
        time_period_mutation::negate(q); time_period_mutation::incrementHour(q); time_period_mutation::incrementMinute(q);
        time_period_mutation::incrementHour(q, r.u8()); sink(q.hour());
        break;
      }
      case 16: {
        // lookups with arbitrary names / ids / indices
        char name[40]; uint8_t len = r.u8() % 39; for (int k = 0; k < len; k++) { name[k] = (char) r.u8(); if (!name[k]) name[k] = 'A'; } name[len] = 0;
        uint8_t mode = r.u8() % 5;
        if (mode == 0 && len > 3) { const char* real = extended::ZoneInfoBroker(zonedbx::kZoneRegistry[(uint8_t) name[0] % zonedbx::kZoneRegistrySize]).name();
          strncpy(name, real, sizeof(name) - 1); name[sizeof(name) - 1] = 0; if (mode == 0 && (name[1] & 1)) name[strlen(name) - 1] = 0; }
        OP("ZoneManager lookup name(len %d) mode %d", (int) strlen(name), mode);
        TimeZone a = w.xm->createForZoneName(name); sink(a.isError()); sink(w.xm->indexForZoneName(name));
        TimeZone b = w.bm->createForZoneName(name); sink(b.isError()); sink(w.bm->indexForZoneName(name));
        uint32_t id = r.u32(); TimeZone c1 = w.xm3->createForZoneId(id); sink(c1.isError()); sink(w.bm->indexForZoneId(id));
        if (!c1.isError() && c1.getZoneId() != id) semantic_fail("createForZoneId-wrong-zone");
        uint16_t ix = (uint16_t) r.u32(); TimeZone d1 = w.xm->createForZoneIndex(ix); sink(d1.isError());
        if (ix >= zonedbx::kZoneRegistrySize) { EXPECT_ERR(d1.isError(), "createForZoneIndex-out-of-range"); gNonTrivial++; }
        TimeZoneData td; td.type = r.u8(); td.zoneId = r.u32();
        TimeZone e1 = w.bm->createForTimeZoneData(td); sink(e1.isError()); e1.printTo(gPrinter); sinkp();
        if (!a.isError()) { sink(a.getUtcOffset(0).toMinutes()); w.tz.push_back(a); }
        break;
      }
      case 17: {
        // parsers on arbitrary NUL-terminated text of sufficient length (memory safety) and on short text (must be errors)
        char text[64]; uint8_t len = r.u8() % 48; for (int k = 0; k < len; k++) { text[k] = (char) r.u8(); if (!text[k]) text[k] = '0'; } text[len] = 0;
        if (r.u8() & 1) { const char* good = "2019-12-31T23:59:58-07:30[America/Los_Angeles]"; size_t gl = strlen(good); for (size_t k = 0; k < len && k < gl; k++) if (r.u8() & 3) text[k] = good[k]; }
        OP("parsers(len %d)", len);
        LocalDate a = LocalDate::forDateString(text); if (len < 10) { EXPECT_ERR(a.isError(), "LocalDate::forDateString-short"); gNonTrivial++; }
        LocalTime b = LocalTime::forTimeString(text); if (len < 8) EXPECT_ERR(b.isError(), "LocalTime::forTimeString-short");
        LocalDateTime c1 = LocalDateTime::forDateString(text); if (len < 19) EXPECT_ERR(c1.isError(), "LocalDateTime::forDateString-short");
        LocalDateTime c2 = LocalDateTime::forDateString((const __FlashStringHelper*) text); if (len < 19) EXPECT_ERR(c2.isError(), "LocalDateTime::forDateString(F)-short");
        TimeOffset d1 = TimeOffset::forOffsetString(text); if (len != 6) EXPECT_ERR(d1.isError(), "TimeOffset::forOffsetString-length");
        OffsetDateTime e1 = OffsetDateTime::forDateString(text); if (len < 25) EXPECT_ERR(e1.isError(), "OffsetDateTime::forDateString-short");
        OffsetDateTime e2 = OffsetDateTime::forDateString((const __FlashStringHelper*) text); if (len < 25) EXPECT_ERR(e2.isError(), "OffsetDateTime::forDateString(F)-short");
        ZonedDateTime f1 = ZonedDateTime::forDateString(text); if (len < 25) EXPECT_ERR(f1.isError(), "ZonedDateTime::forDateString-short");
        sink(a.isError() + b.isError() + c1.isError() + c2.isError() + d1.isError() + e1.isError() + e2.isError() + f1.isError());
        break;
      }
      case 18: {
        TimeZone& tz = w.any(r);
        ZonedDateTime z = ZonedDateTime::forEpochSeconds(pick(r, kI32Pool, false), tz);
        OP("zoned_date_time_mutation on tz type %d", (int) tz.getType());
        z.yearTiny((int8_t) r.u8()); z.month(r.u8()); z.day(r.u8()); z.hour(r.u8()); z.minute(r.u8()); z.second(r.u8());
        zoned_date_time_mutation::incrementYear(z); zoned_date_time_mutation::incrementMonth(z); zoned_date_time_mutation::incrementDay(z);
        zoned_date_time_mutation::incrementHour(z); zoned_date_time_mutation::incrementMinute(z);
        sink(z.isError());
        break;
      }
      case 19: {
        ace_time::DateStrings ds; uint8_t i = r.u8();
        OP("DateStrings(%d)", i);
        sink((long) strlen(ds.monthLongString(i))); sink((long) strlen(ds.monthShortString(i)));
        sink((long) strlen(ds.dayOfWeekLongString(i))); sink((long) strlen(ds.dayOfWeekShortString(i)));
        break;
      }
      case 20: case 21: {
        // local date-time through a zone (getOffsetDateTime), incl. years outside the zone data and a repeat
        int16_t y = pick(r, kYearPool); uint8_t mo = 1 + r.u8() % 12, d = 1 + r.u8() % 28, h = r.u8() % 24, mi = r.u8() % 60;
        TimeZone& tz = w.any(r);
        OP("TimeZone(type %d id %u)::getOffsetDateTime(%d-%d-%d %d:%d)", (int) tz.getType(), (unsigned) tz.getZoneId(), y, mo, d, h, mi);
        LocalDateTime ldt = LocalDateTime::forComponents(y, mo, d, h, mi, 0);
        const char* c = cls_date(y, mo, d);
        if (excluded("TimeZone::getOffsetDateTime", c)) break;
        for (int rep = 0; rep < 2; rep++) {
          OffsetDateTime o = tz.getOffsetDateTime(ldt);
          bool mustErr = ldt.isError() || tz.isError() || (is_zone(tz) && (y < 1998 || y > 2051));
          if (mustErr) { EXPECT_ERR(o.isError(), "getOffsetDateTime-out-of-range"); gNonTrivial++; }
          sink(o.isError());
        }
        break;
      }
      default: {
        // rebind a shared processor through another TimeZone, then query the first again
        TimeZone& a = w.tz[3 + r.u8() % 2]; TimeZone& b = w.tz[3 + r.u8() % 2];
        int32_t e = pick(r, kI32Pool, false);
        OP("shared-processor interleave e=%d", e);
        sink(a.getUtcOffset(e).toMinutes()); const char* s1 = b.getAbbrev(e); sink((long) strlen(s1)); b.printTo(gPrinter); sinkp();
        sink(a.getDeltaOffset(e).toMinutes());
        break;
      }
    }
  }
}

#endif
