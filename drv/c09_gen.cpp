// C09 generator / replay / exhaustive-sequence / buffer-bound driver (ASan+UBSan build, UB in recover mode).
#include "c09_ops.h"
extern "C" void __sanitizer_set_death_callback(void (*callback)(void));

class ExtendedZoneProcessorTest_createAbbreviation {
  public: static int maxTransitions() { return ExtendedZoneProcessor::kMaxTransitions; }
};

static void load_exclusions(const char* path) {
  gExclusions = new std::set<std::string>();
  if (!path || !strcmp(path, "-")) return;
  FILE* f = fopen(path, "r");
  if (!f) return;
  char line[256];
  while (fgets(line, sizeof(line), f)) { line[strcspn(line, "\r\n")] = 0; if (line[0]) gExclusions->insert(line); }
  fclose(f);
}

static uint64_t sm(uint64_t& s) { uint64_t z = (s += 0x9E3779B97F4A7C15ULL); z = (z ^ (z >> 30)) * 0xBF58476D1CE4E5B9ULL; z = (z ^ (z >> 27)) * 0x94D049BB133111EBULL; return z ^ (z >> 31); }

static int gen(uint64_t seed, long count) {
  std::vector<uint8_t> buf;
  for (long i = 0; i < count; i++) {
    uint64_t s = seed * 1000003ULL + (uint64_t) i;
    size_t len = 6 + sm(s) % 120;
    buf.resize(len);
    for (size_t k = 0; k < len; k++) buf[k] = (uint8_t) sm(s);
    run_ops(buf.data(), buf.size());
  }
  printf("DONE inputs=%ld ops=%llu nontrivial=%llu excluded=%llu sites=%zu\n", count, gOps, gNonTrivial, gExcluded, gSeenSites ? gSeenSites->size() : 0);
  return 0;
}

static int replay(const char* path) {
  FILE* f = fopen(path, "rb");
  if (!f) return 3;
  std::vector<uint8_t> buf(1 << 16);
  size_t n = fread(buf.data(), 1, buf.size(), f);
  fclose(f);
  run_ops(buf.data(), n);
  printf("DONE inputs=1 ops=%llu nontrivial=%llu excluded=%llu sites=%zu\n", gOps, gNonTrivial, gExcluded, gSeenSites ? gSeenSites->size() : 0);
  return 0;
}

// clause (c): transition pool high-water per zone over years 1999..2050, by instant and by local date
#ifndef VDB_X
#define VDB_X zonedbx
#endif
#ifndef VDB_B
#define VDB_B zonedb
#endif
#ifdef VDB_X_HEADER
#include VDB_X_HEADER
#endif
#ifdef VDB_B_HEADER
#include VDB_B_HEADER
#endif
static int bufs() {
#ifndef VDB_NO_X
  for (uint16_t i = 0; i < VDB_X::kZoneRegistrySize; i++) {
    const extended::ZoneInfo* zi = VDB_X::kZoneRegistry[i];
    int worst = 0, worstYear = 0; int errors = 0;
    for (int y = 1999; y <= 2050; y++) {
      ExtendedZoneProcessor p;
      TimeZone tz = TimeZone::forZoneInfo(zi, &p);
      p.resetTransitionHighWater();
      long long base = (long long) LocalDate::forComponents(y, 1, 1).toEpochDays() * 86400LL;
      long long pts[] = {base, base + 86399, base + 181LL * 86400, base + 364LL * 86400 + 86399};
      for (long long t : pts) { if (t > INT32_MIN && t < INT32_MAX) { if (tz.getUtcOffset((acetime_t) t).isError() && y >= 2000 && y <= 2049) errors++;
        // the other two accessors must not crash either, whatever the year (sanitizer build)
        (void) tz.getDeltaOffset((acetime_t) t); const char* ab = tz.getAbbrev((acetime_t) t);
        // an abbreviation never exceeds the 6 characters its buffer holds (a longer FORMAT + LETTER is cut, not overrun)
        if (ab && strnlen(ab, 64) > 6) errors += 1000; } }
      ExtendedZoneProcessor q;
      TimeZone tz2 = TimeZone::forZoneInfo(zi, &q);
      q.resetTransitionHighWater();
      int md[][2] = {{1, 1}, {3, 31}, {7, 1}, {10, 31}, {12, 31}};
      for (auto& m : md) { OffsetDateTime o = tz2.getOffsetDateTime(LocalDateTime::forComponents(y, m[0], m[1], 12, 0, 0)); if (o.isError() && y >= 2000 && y <= 2049) errors++; }
      int hw = p.getTransitionHighWater() > q.getTransitionHighWater() ? p.getTransitionHighWater() : q.getTransitionHighWater();
      if (hw > worst) { worst = hw; worstYear = y; }
    }
    printf("X %s highwater=%d year=%d bufsize=%d max=%d errors=%d\n", extended::ZoneInfoBroker(zi).name(), worst, worstYear,
        (int) zi->transitionBufSize, ExtendedZoneProcessorTest_createAbbreviation::maxTransitions(), errors);
  }
#endif
#ifndef VDB_NO_B
  for (uint16_t i = 0; i < VDB_B::kZoneRegistrySize; i++) {
    const basic::ZoneInfo* zi = VDB_B::kZoneRegistry[i];
    unsigned long dropped = 0; int errors = 0;
#if defined(SEANDST_ACETIME_VERIF)
    BasicZoneProcessor::verifDroppedTransitions() = 0;
#endif
    for (int y = 1999; y <= 2050; y++) {
      BasicZoneProcessor p;
      TimeZone tz = TimeZone::forZoneInfo(zi, &p);
      long long base = (long long) LocalDate::forComponents(y, 1, 1).toEpochDays() * 86400LL;
      long long pts[] = {base, base + 86400, base + 181LL * 86400, base + 364LL * 86400 + 86399};
      for (long long t : pts) { if (t > INT32_MIN && t < INT32_MAX) { if (tz.getUtcOffset((acetime_t) t).isError() && y >= 2000 && y <= 2049) errors++;
        (void) tz.getDeltaOffset((acetime_t) t); const char* ab = tz.getAbbrev((acetime_t) t);
        if (ab && strnlen(ab, 64) > 6) errors += 1000; } }
      OffsetDateTime o = tz.getOffsetDateTime(LocalDateTime::forComponents(y, 7, 1, 12, 0, 0)); (void) o;
    }
#if defined(SEANDST_ACETIME_VERIF)
    dropped = BasicZoneProcessor::verifDroppedTransitions();
#else
    dropped = 999999;
#endif
    printf("B %s dropped=%lu errors=%d\n", basic::ZoneInfoBroker(zi).name(), dropped, errors);
  }
#endif
  return 0;
}

// exhaustive sequences of length <= 4 over argument classes x query kinds on one processor
static int seq4(char db, int zi) {
  static const long long kArg[4] = {
    (long long) LocalDate::forComponents(2020, 7, 1).toEpochDays() * 86400LL + 43200,   // valid
    (long long) LocalDate::forComponents(1990, 7, 1).toEpochDays() * 86400LL,           // below range
    (long long) LocalDate::forComponents(2060, 7, 1).toEpochDays() * 86400LL,           // above range
    INT32_MIN };                                                                        // sentinel
  static const int kYear[4] = {2020, 1990, 2060, 0};
  unsigned long long n = 0, bad = 0;
  for (int len = 1; len <= 4; len++) {
    int total = 1; for (int k = 0; k < len; k++) total *= 20;
    for (int code = 0; code < total; code++) {
      BasicZoneProcessor bp; ExtendedZoneProcessor xp;
      TimeZone tz = (db == 'b') ? TimeZone::forZoneInfo(zonedb::kZoneRegistry[zi], &bp) : TimeZone::forZoneInfo(zonedbx::kZoneRegistry[zi], &xp);
      int c = code;
      char hist[128]; int hl = 0;
      for (int k = 0; k < len; k++) {
        int a = c % 4, q = (c / 4) % 5; c /= 20;
        hl += snprintf(hist + hl, sizeof(hist) - hl, "%d:%d ", q, a);
        snprintf(gOpDesc, sizeof(gOpDesc), "seq4 db=%c zone=%d history=[%s]", db, zi, hist);
        BasicZoneProcessor fb; ExtendedZoneProcessor fx;
        TimeZone fresh = (db == 'b') ? TimeZone::forZoneInfo(zonedb::kZoneRegistry[zi], &fb) : TimeZone::forZoneInfo(zonedbx::kZoneRegistry[zi], &fx);
        bool same = true, err = false;
        acetime_t t = (acetime_t) kArg[a];
        if (q == 0) { TimeOffset x = tz.getUtcOffset(t), y = fresh.getUtcOffset(t); same = x.toMinutes() == y.toMinutes(); err = x.isError(); }
        else if (q == 1) { TimeOffset x = tz.getDeltaOffset(t), y = fresh.getDeltaOffset(t); same = x.toMinutes() == y.toMinutes(); err = x.isError(); }
        else if (q == 2) { std::string x = tz.getAbbrev(t), y = fresh.getAbbrev(t); same = x == y; err = x.empty(); }
        else if (q == 3) {
          LocalDateTime ldt = a == 3 ? LocalDateTime::forError() : LocalDateTime::forComponents((int16_t) kYear[a], 7, 1, 12, 0, 0);
          OffsetDateTime x = tz.getOffsetDateTime(ldt), y = fresh.getOffsetDateTime(ldt);
          same = (x.isError() && y.isError()) || (x == y); err = x.isError();
        } else { Print p1, p2; tz.printTo(p1); fresh.printTo(p2); same = p1.buf == p2.buf; err = (a != 0); }
        n++;
        if (!same || (a != 0 && !err)) {
          if (bad < 8) printf("MISMATCH seq4 db=%c zone=%d history=[%s] same=%d error=%d\n", db, zi, hist, same ? 1 : 0, err ? 1 : 0);
          bad++;
        }
      }
    }
  }
  printf("SEQ4 db=%c zone=%d n=%llu bad=%llu\n", db, zi, n, bad);
  return 0;
}

int main(int argc, char** argv) {
  if (argc < 2) return 2;
  __sanitizer_set_death_callback(on_death);
  if (!strcmp(argv[1], "gen") && argc >= 5) {
    gOutDir = argv[4];
    load_exclusions(argc > 5 ? argv[5] : nullptr);
    return gen(strtoull(argv[2], 0, 10), atol(argv[3]));
  }
  if (!strcmp(argv[1], "replay") && argc >= 3) {
    load_exclusions(argc > 3 ? argv[3] : nullptr);
    return replay(argv[2]);
  }
  if (!strcmp(argv[1], "bufs")) return bufs();
  if (!strcmp(argv[1], "seq4") && argc == 4) { gExclusions = new std::set<std::string>(); return seq4(argv[2][0], atoi(argv[3])); }
  return 2;
}
