// rpc driver: a line-protocol server around the public AceTime API. No oracle logic: it answers
// queries on long-lived objects ("Q") and on brand-new objects built for that query alone ("F").
// Every command is answered by exactly one line starting with "= ".
#include "verif_acetime.h"
#include <stdio.h>
#include <stdlib.h>
#include <string.h>
#include <string>
#include <vector>
#include <sstream>
using namespace ace_time;

struct TzMeta {
  TimeZone tz;
  char kind;          // 'b','x' (direct), 'B','X' (managed), 'm' manual, 'e' error
  const void* info;   // zone info for b/x/B/X
};

struct Mgr {
  char db;
  int size;
  ZoneManager* mgr;
  std::vector<const void*> registry;  // owned copy of the pointer array
  const void* const* raw;
};

static std::vector<ZoneProcessor*> procs;
static std::vector<char> procKinds;
static std::vector<Mgr> mgrs;
static std::vector<TzMeta> tzs;
static std::vector<std::string> ownedNames;

static uint16_t nB() { return zonedb::kZoneRegistrySize; }
static uint16_t nX() { return zonedbx::kZoneRegistrySize; }
// Zone numbers n..2n-1 denote "another edition" of zone i = z-n: a distinct ZoneInfo object with the same name and id
// whose eras are those of another zone (what a second TZ-database edition or a hand-written ZoneInfo looks like to
// createForZoneInfo / forZoneInfo).
static std::vector<const basic::ZoneInfo*> altB;
static std::vector<const extended::ZoneInfo*> altX;
static const basic::ZoneInfo* infoB(int i) {
  int n = nB();
  if (i < n) return zonedb::kZoneRegistry[i];
  if (altB.empty()) altB.resize(n, nullptr);
  i -= n;
  if (!altB[i]) {
    const basic::ZoneInfo* a = zonedb::kZoneRegistry[i];
    const basic::ZoneInfo* b = zonedb::kZoneRegistry[(i * 7 + 13) % n];
    altB[i] = new basic::ZoneInfo{a->name, a->zoneId, a->zoneContext, b->transitionBufSize, b->numEras, b->eras};
  }
  return altB[i];
}
static const extended::ZoneInfo* infoX(int i) {
  int n = nX();
  if (i < n) return zonedbx::kZoneRegistry[i];
  if (altX.empty()) altX.resize(n, nullptr);
  i -= n;
  if (!altX[i]) {
    const extended::ZoneInfo* a = zonedbx::kZoneRegistry[i];
    const extended::ZoneInfo* b = zonedbx::kZoneRegistry[(i * 7 + 13) % n];
    altX[i] = new extended::ZoneInfo{a->name, a->zoneId, a->zoneContext, b->transitionBufSize, b->numEras, b->eras};
  }
  return altX[i];
}

static void reset_all() {
  for (auto p : procs) delete p;
  procs.clear(); procKinds.clear();
  for (auto& m : mgrs) { delete m.mgr; delete[] m.raw; }
  mgrs.clear();
  tzs.clear();
}

static std::string quote(const std::string& s) {
  std::string o = "\"";
  char b[8];
  for (unsigned char c : s) {
    if (c == '"' || c == '\\' || c < 32 || c > 126) { snprintf(b, sizeof(b), "\\x%02x", c); o += b; }
    else o += (char) c;
  }
  return o + "\"";
}

static std::string unhex(const std::string& h) {
  std::string o;
  for (size_t i = 0; i + 1 < h.size(); i += 2) o.push_back((char) strtol(h.substr(i, 2).c_str(), nullptr, 16));
  return o;
}

static ZoneManager* mkB(int size, uint16_t n, const basic::ZoneInfo* const* r) {
  switch (size) {
    case 1: return new BasicZoneManager<1>(n, r);
    case 2: return new BasicZoneManager<2>(n, r);
    case 3: return new BasicZoneManager<3>(n, r);
    default: return new BasicZoneManager<4>(n, r);
  }
}
static ZoneManager* mkX(int size, uint16_t n, const extended::ZoneInfo* const* r) {
  switch (size) {
    case 1: return new ExtendedZoneManager<1>(n, r);
    case 2: return new ExtendedZoneManager<2>(n, r);
    case 3: return new ExtendedZoneManager<3>(n, r);
    default: return new ExtendedZoneManager<4>(n, r);
  }
}

static int add_mgr(char db, int size, const std::vector<int>& idx) {
  Mgr m;
  m.db = db; m.size = size;
  const void** raw = new const void*[idx.size() + 1];
  for (size_t i = 0; i < idx.size(); i++) {
    raw[i] = (db == 'b') ? (const void*) infoB(idx[i]) : (const void*) infoX(idx[i]);
  }
  raw[idx.size()] = nullptr;
  m.raw = raw;
  if (db == 'b') m.mgr = mkB(size, (uint16_t) idx.size(), (const basic::ZoneInfo* const*) raw);
  else m.mgr = mkX(size, (uint16_t) idx.size(), (const extended::ZoneInfo* const*) raw);
  mgrs.push_back(m);
  return (int) mgrs.size() - 1;
}

static const void* info_of_managed(const TimeZone& tz, const Mgr& m) {
  // the zone a managed TimeZone denotes, recovered through its public id
  if (tz.isError()) return nullptr;
  uint32_t id = tz.getZoneId();
  uint16_t n = m.mgr->registrySize();
  for (uint16_t i = 0; i < n; i++) {
    if (m.db == 'b') {
      if (basic::ZoneInfoBroker((const basic::ZoneInfo*) m.raw[i]).zoneId() == id) return m.raw[i];
    } else {
      if (extended::ZoneInfoBroker((const extended::ZoneInfo*) m.raw[i]).zoneId() == id) return m.raw[i];
    }
  }
  return nullptr;
}

static std::string answer(const TimeZone& tz, std::istringstream& in) {
  std::string kind;
  in >> kind;
  char buf[256];
  if (kind == "off") {
    long long t; in >> t;
    TimeOffset o = tz.getUtcOffset((acetime_t) t);
    if (o.isError()) return "ERR";
    snprintf(buf, sizeof(buf), "%d", (int) o.toMinutes());
    return buf;
  } else if (kind == "delta") {
    long long t; in >> t;
    TimeOffset o = tz.getDeltaOffset((acetime_t) t);
    if (o.isError()) return "ERR";
    snprintf(buf, sizeof(buf), "%d", (int) o.toMinutes());
    return buf;
  } else if (kind == "abbrev") {
    long long t; in >> t;
    const char* a = tz.getAbbrev((acetime_t) t);
    return a ? quote(a) : "NULL";
  } else if (kind == "odt") {
    int y, mo, d, h, mi, s; in >> y >> mo >> d >> h >> mi >> s;
    LocalDateTime ldt = LocalDateTime::forComponents((int16_t) y, (uint8_t) mo, (uint8_t) d, (uint8_t) h,
        (uint8_t) mi, (uint8_t) s);
    OffsetDateTime o = tz.getOffsetDateTime(ldt);
    if (o.isError()) return "ERR";
    snprintf(buf, sizeof(buf), "%d-%d-%d %d:%d:%d %d %d", (int) o.year(), (int) o.month(), (int) o.day(),
        (int) o.hour(), (int) o.minute(), (int) o.second(), (int) o.timeOffset().toMinutes(),
        (int) o.toEpochSeconds());
    return buf;
  } else if (kind == "zdt") {
    long long t; in >> t;
    ZonedDateTime z = ZonedDateTime::forEpochSeconds((acetime_t) t, tz);
    if (z.isError()) return "ERR";
    Print p; z.printTo(p);
    return quote(p.buf);
  } else if (kind == "print") {
    Print p; tz.printTo(p); return quote(p.buf);
  } else if (kind == "short") {
    Print p; tz.printShortTo(p); return quote(p.buf);
  } else if (kind == "id") {
    snprintf(buf, sizeof(buf), "%u", (unsigned) tz.getZoneId()); return buf;
  } else if (kind == "type") {
    snprintf(buf, sizeof(buf), "%d", (int) tz.getType()); return buf;
  } else if (kind == "data") {
    TimeZoneData d = tz.toTimeZoneData();
    if (d.type == TimeZoneData::kTypeManual)
      snprintf(buf, sizeof(buf), "manual %d %d", (int) d.stdOffsetMinutes, (int) d.dstOffsetMinutes);
    else if (d.type == TimeZoneData::kTypeZoneId)
      snprintf(buf, sizeof(buf), "zoneid %u", (unsigned) d.zoneId);
    else snprintf(buf, sizeof(buf), "error %d", (int) d.type);
    return buf;
  } else if (kind == "std") {
    snprintf(buf, sizeof(buf), "%d %d %d %d", (int) tz.getStdOffset().toMinutes(), (int) tz.getDstOffset().toMinutes(),
        tz.isUtc() ? 1 : 0, tz.isDst() ? 1 : 0);
    return buf;
  }
  return "BADKIND";
}

static std::string fresh_answer(const TzMeta& m, std::istringstream& in) {
  if (m.kind == 'b' || m.kind == 'B') {
    BasicZoneProcessor p;
    TimeZone tz = TimeZone::forZoneInfo((const basic::ZoneInfo*) m.info, &p);
    return answer(tz, in);
  } else if (m.kind == 'x' || m.kind == 'X') {
    ExtendedZoneProcessor p;
    TimeZone tz = TimeZone::forZoneInfo((const extended::ZoneInfo*) m.info, &p);
    return answer(tz, in);
  }
  TimeZone copy = m.tz;
  return answer(copy, in);
}

static std::string handle(const std::string& line) {
  std::istringstream in(line);
  std::string cmd;
  in >> cmd;
  char buf[128];
  if (cmd == "RESET") { reset_all(); return "OK"; }
  if (cmd == "PROC") {
    std::string k; in >> k;
    if (k == "b") procs.push_back(new BasicZoneProcessor()); else procs.push_back(new ExtendedZoneProcessor());
    procKinds.push_back(k[0]);
    snprintf(buf, sizeof(buf), "%d", (int) procs.size() - 1); return buf;
  }
  if (cmd == "TZ") {
    int p, zi; in >> p >> zi;
    if (p < 0 || p >= (int) procs.size()) return "BAD";
    TzMeta m;
    m.kind = procKinds[p];
    if (m.kind == 'b') {
      if (zi < 0 || zi >= 2 * nB()) return "BAD";
      m.info = infoB(zi);
      m.tz = TimeZone::forZoneInfo(infoB(zi), (BasicZoneProcessor*) procs[p]);
    } else {
      if (zi < 0 || zi >= 2 * nX()) return "BAD";
      m.info = infoX(zi);
      m.tz = TimeZone::forZoneInfo(infoX(zi), (ExtendedZoneProcessor*) procs[p]);
    }
    tzs.push_back(m);
    snprintf(buf, sizeof(buf), "%d", (int) tzs.size() - 1); return buf;
  }
  if (cmd == "TZMAN") {
    int s, d; in >> s >> d;
    TzMeta m; m.kind = 'm'; m.info = nullptr;
    m.tz = TimeZone::forTimeOffset(TimeOffset::forMinutes((int16_t) s), TimeOffset::forMinutes((int16_t) d));
    tzs.push_back(m);
    snprintf(buf, sizeof(buf), "%d", (int) tzs.size() - 1); return buf;
  }
  if (cmd == "TZERR" || cmd == "TZUTC") {
    TzMeta m; m.kind = cmd == "TZERR" ? 'e' : 'm'; m.info = nullptr;
    m.tz = cmd == "TZERR" ? TimeZone::forError() : TimeZone::forUtc();
    tzs.push_back(m);
    snprintf(buf, sizeof(buf), "%d", (int) tzs.size() - 1); return buf;
  }
  if (cmd == "MGR") {
    std::string db; int size, n; in >> db >> size >> n;
    std::vector<int> idx;
    for (int i = 0; i < n; i++) { int v; in >> v; idx.push_back(v); }
    int lim = db == "b" ? nB() : nX();
    for (int v : idx) if (v < 0 || v >= lim) return "BAD";
    snprintf(buf, sizeof(buf), "%d", add_mgr(db[0], size, idx)); return buf;
  }
  if (cmd == "MGRFULL") {
    std::string db; int size; in >> db >> size;
    std::vector<int> idx;
    int lim = db == "b" ? nB() : nX();
    for (int i = 0; i < lim; i++) idx.push_back(i);
    snprintf(buf, sizeof(buf), "%d", add_mgr(db[0], size, idx)); return buf;
  }
  if (cmd == "MTZ") {
    int mi; std::string how; in >> mi >> how;
    if (mi < 0 || mi >= (int) mgrs.size()) return "BAD";
    Mgr& m = mgrs[mi];
    TzMeta t;
    if (how == "name") { std::string hx; in >> hx; std::string nm = unhex(hx); t.tz = m.mgr->createForZoneName(nm.c_str()); }
    else if (how == "id") { unsigned long id; in >> id; t.tz = m.mgr->createForZoneId((uint32_t) id); }
    else if (how == "index") { unsigned long ix; in >> ix; t.tz = m.mgr->createForZoneIndex((uint16_t) ix); }
    else if (how == "info") {
      int zi; in >> zi;
      if (m.db == 'b') {
        if (zi < 0 || zi >= 2 * nB()) return "BAD";
        switch (m.size) {
          case 1: t.tz = ((BasicZoneManager<1>*) m.mgr)->createForZoneInfo(infoB(zi)); break;
          case 2: t.tz = ((BasicZoneManager<2>*) m.mgr)->createForZoneInfo(infoB(zi)); break;
          case 3: t.tz = ((BasicZoneManager<3>*) m.mgr)->createForZoneInfo(infoB(zi)); break;
          default: t.tz = ((BasicZoneManager<4>*) m.mgr)->createForZoneInfo(infoB(zi)); break;
        }
        t.kind = 'B'; t.info = infoB(zi);
        tzs.push_back(t);
        snprintf(buf, sizeof(buf), "%d %d", (int) tzs.size() - 1, (int) t.tz.getType()); return buf;
      } else {
        if (zi < 0 || zi >= 2 * nX()) return "BAD";
        switch (m.size) {
          case 1: t.tz = ((ExtendedZoneManager<1>*) m.mgr)->createForZoneInfo(infoX(zi)); break;
          case 2: t.tz = ((ExtendedZoneManager<2>*) m.mgr)->createForZoneInfo(infoX(zi)); break;
          case 3: t.tz = ((ExtendedZoneManager<3>*) m.mgr)->createForZoneInfo(infoX(zi)); break;
          default: t.tz = ((ExtendedZoneManager<4>*) m.mgr)->createForZoneInfo(infoX(zi)); break;
        }
        t.kind = 'X'; t.info = infoX(zi);
        tzs.push_back(t);
        snprintf(buf, sizeof(buf), "%d %d", (int) tzs.size() - 1, (int) t.tz.getType()); return buf;
      }
    }
    else if (how == "data") {
      int src; in >> src;
      if (src < 0 || src >= (int) tzs.size()) return "BAD";
      TimeZoneData d = tzs[src].tz.toTimeZoneData();
      t.tz = m.mgr->createForTimeZoneData(d);
    }
    else if (how == "rawdata") {
      int type; long long a, b; in >> type >> a >> b;
      TimeZoneData d;
      d.type = (uint8_t) type;
      if (type == TimeZoneData::kTypeZoneId) d.zoneId = (uint32_t) a;
      else { d.stdOffsetMinutes = (int16_t) a; d.dstOffsetMinutes = (int16_t) b; }
      t.tz = m.mgr->createForTimeZoneData(d);
    }
    else return "BAD";
    if (t.tz.isError()) { t.kind = 'e'; t.info = nullptr; }
    else if (t.tz.getType() == TimeZone::kTypeManual) { t.kind = 'm'; t.info = nullptr; }
    else { t.kind = m.db == 'b' ? 'B' : 'X'; t.info = info_of_managed(t.tz, m); }
    tzs.push_back(t);
    snprintf(buf, sizeof(buf), "%d %d", (int) tzs.size() - 1, (int) t.tz.getType()); return buf;
  }
  if (cmd == "Q" || cmd == "F") {
    int ti; in >> ti;
    if (ti < 0 || ti >= (int) tzs.size()) return "BAD";
    if (cmd == "Q") return answer(tzs[ti].tz, in);
    return fresh_answer(tzs[ti], in);
  }
  if (cmd == "EQ") {
    int a, b; in >> a >> b;
    if (a < 0 || b < 0 || a >= (int) tzs.size() || b >= (int) tzs.size()) return "BAD";
    snprintf(buf, sizeof(buf), "%d %d", tzs[a].tz == tzs[b].tz ? 1 : 0, tzs[a].tz != tzs[b].tz ? 1 : 0); return buf;
  }
  if (cmd == "IDX") {
    int mi; std::string how; in >> mi >> how;
    if (mi < 0 || mi >= (int) mgrs.size()) return "BAD";
    if (how == "name") { std::string hx; in >> hx; std::string nm = unhex(hx);
      snprintf(buf, sizeof(buf), "%u", (unsigned) mgrs[mi].mgr->indexForZoneName(nm.c_str())); return buf; }
    if (how == "id") { unsigned long id; in >> id;
      snprintf(buf, sizeof(buf), "%u", (unsigned) mgrs[mi].mgr->indexForZoneId((uint32_t) id)); return buf; }
    if (how == "size") { snprintf(buf, sizeof(buf), "%u", (unsigned) mgrs[mi].mgr->registrySize()); return buf; }
    return "BAD";
  }
  if (cmd == "ZONENAME") {   // name of the zone a tz denotes according to the harness meta (for oracles)
    int ti; in >> ti;
    if (ti < 0 || ti >= (int) tzs.size()) return "BAD";
    const TzMeta& m = tzs[ti];
    if (!m.info) return "-";
    if (m.kind == 'b' || m.kind == 'B') return basic::ZoneInfoBroker((const basic::ZoneInfo*) m.info).name();
    return extended::ZoneInfoBroker((const extended::ZoneInfo*) m.info).name();
  }
  if (cmd == "NZONES") { snprintf(buf, sizeof(buf), "%d %d", (int) nB(), (int) nX()); return buf; }
  return "BADCMD";
}

static void aba(char db, int zi, int zj, unsigned long long& n, unsigned long long& bad);

// Exhaustive two-step histories on one shared processor (C08 generator 1). No sanitizer needed.
// pairs <b|x> <zoneIdx> <otherZoneIdx>
static int pairs(char db, int zi, int zj) {
  static const char* kinds[] = {"off", "delta", "abbrev", "odt", "print"};
  std::vector<std::string> args[5];
  std::vector<int> years;
  for (int y = 1998; y <= 2051; y++) years.push_back(y);
  unsigned long long n = 0, bad = 0;
  auto mkarg = [&](int k, int y) {
    char b[64];
    long long t = (long long) LocalDate::forComponents(y < 1873 ? 1873 : y, 7, 1).toEpochDays() * 86400LL + 43200;
    if (k == 3) snprintf(b, sizeof(b), "odt %d 7 1 12 0 0", y);
    else if (k == 4) snprintf(b, sizeof(b), "print");
    else snprintf(b, sizeof(b), "%s %lld", kinds[k], t);
    return std::string(b);
  };
  for (int y1 : years) for (int y2 : years) {
    for (int k1 = 0; k1 < 5; k1++) for (int k2 = 0; k2 < 5; k2++) {
      reset_all();
      handle(std::string("PROC ") + db);
      char b[64]; snprintf(b, sizeof(b), "TZ 0 %d", zi); handle(b);
      std::string a1 = mkarg(k1, y1), a2 = mkarg(k2, y2);
      handle("Q 0 " + a1);
      std::string got = handle("Q 0 " + a2);
      std::string want = handle("F 0 " + a2);
      n++;
      if (got != want) {
        if (bad < 10) printf("MISMATCH zone=%d hist=[%s; %s] got=%s fresh=%s\n", zi, a1.c_str(), a2.c_str(),
            got.c_str(), want.c_str());
        bad++;
      }
    }
  }
  // same year, different instants: Jan 1 / Dec 31 (UTC) first, then mid-year, and the other way round
  for (int y = 1999; y <= 2050; y++) {
    long long base = (long long) LocalDate::forComponents(y, 1, 1).toEpochDays() * 86400LL;
    long long pts[4] = {base, base + 86399, base + 181LL * 86400 + 43200, base + 364LL * 86400 + 86399};
    for (int i = 0; i < 4; i++) for (int j = 0; j < 4; j++) for (int k1 = 0; k1 < 3; k1++) for (int k2 = 0; k2 < 3; k2++) {
      if (i == j) continue;
      reset_all();
      handle(std::string("PROC ") + db);
      char b[64]; snprintf(b, sizeof(b), "TZ 0 %d", zi); handle(b);
      char a1[64], a2[64];
      snprintf(a1, sizeof(a1), "%s %lld", kinds[k1], pts[i]);
      snprintf(a2, sizeof(a2), "%s %lld", kinds[k2], pts[j]);
      handle(std::string("Q 0 ") + a1);
      std::string got = handle(std::string("Q 0 ") + a2), want = handle(std::string("F 0 ") + a2);
      n++;
      if (got != want) {
        if (bad < 10) printf("MISMATCH zone=%d hist=[%s; %s] got=%s fresh=%s\n", zi, a1, a2, got.c_str(), want.c_str());
        bad++;
      }
    }
  }
  // adjacent years at the edges: an instant in the first / last days of a year (incl. Jan 1 and Dec 31 UTC, which the
  // basic processor files under the neighbouring year) before or after an instant of the neighbouring or the same year
  {
    std::vector<long long> pts; std::vector<int> py;
    for (int y = 1998; y <= 2051; y++) {
      long long base = (long long) LocalDate::forComponents(y, 1, 1).toEpochDays() * 86400LL;
      long long yl = (long long) LocalDate::forComponents(y + 1, 1, 1).toEpochDays() * 86400LL - base;
      long long offs[7] = {0, 43200, 14LL * 86400, 181LL * 86400 + 43200, yl - 17LL * 86400, yl - 43200, yl - 1};
      for (int i = 0; i < 7; i++) { pts.push_back(base + offs[i]); py.push_back(y); }
    }
    static const int ks[3] = {0, 2, 3};   // off, abbrev, odt (the local date-time of the instant in UTC)
    for (size_t i = 0; i < pts.size(); i++) for (size_t j = 0; j < pts.size(); j++) {
      if (i == j || abs(py[i] - py[j]) > 1) continue;
      if (i % 7 == 3 && j % 7 == 3) continue;   // mid-year / mid-year pairs are covered above
      for (int a = 0; a < 3; a++) for (int b2 = 0; b2 < 3; b2++) {
        reset_all();
        handle(std::string("PROC ") + db);
        char b[64]; snprintf(b, sizeof(b), "TZ 0 %d", zi); handle(b);
        auto arg = [&](int k, long long t) {
          char c[80];
          if (ks[k] == 3) {
            LocalDateTime l = LocalDateTime::forEpochSeconds((acetime_t) t);
            snprintf(c, sizeof(c), "odt %d %d %d %d %d %d", (int) l.year(), (int) l.month(), (int) l.day(), (int) l.hour(), (int) l.minute(), (int) l.second());
          } else snprintf(c, sizeof(c), "%s %lld", kinds[ks[k]], t);
          return std::string(c);
        };
        std::string a1 = arg(a, pts[i]), a2 = arg(b2, pts[j]);
        handle("Q 0 " + a1);
        std::string got = handle("Q 0 " + a2), want = handle("F 0 " + a2);
        n++;
        if (got != want) {
          if (bad < 10) printf("MISMATCH zone=%d hist=[%s; %s] got=%s fresh=%s\n", zi, a1.c_str(), a2.c_str(), got.c_str(), want.c_str());
          bad++;
        }
      }
    }
  }
  // three steps on one zone: q(y1); q(y2); q(y1) for every ordered pair of years (y2 may lie outside the database range:
  // a failed or different cache fill in between must not change what the first year answers the second time)
  {
    static const int ks[3] = {0, 2, 3};
    for (int y1 : years) for (int y2 : years) {
      if (y1 == y2) continue;
      for (int a = 0; a < 3; a++) {
        reset_all();
        handle(std::string("PROC ") + db);
        char b[64]; snprintf(b, sizeof(b), "TZ 0 %d", zi); handle(b);
        std::string a1 = mkarg(ks[a], y1), a2 = mkarg(ks[(a + y2) % 3], y2);
        handle("Q 0 " + a1);
        handle("Q 0 " + a2);
        std::string got = handle("Q 0 " + a1), want = handle("F 0 " + a1);
        n++;
        if (got != want) {
          if (bad < 10) printf("MISMATCH zone=%d hist=[%s; %s; %s] got=%s fresh=%s\n", zi, a1.c_str(), a2.c_str(), a1.c_str(),
              got.c_str(), want.c_str());
          bad++;
        }
      }
    }
  }
  // wall times inside the overlap / gap of every offset change of the zone, asked after a query that was answered with the
  // offset before the change, with the offset after it, or with no query at all in between (both orders, both kinds of first query)
  {
    reset_all();
    handle(std::string("PROC ") + db);
    char b[96]; snprintf(b, sizeof(b), "TZ 0 %d", zi); handle(b);
    std::vector<long long> ts; std::vector<int> o1s, o2s;
    auto offAt = [&](long long t) { char c[64]; snprintf(c, sizeof(c), "F 0 off %lld", t); std::string r = handle(c); return r == "ERR" ? 99999 : atoi(r.c_str()); };
    long long t0 = (long long) LocalDate::forComponents(2000, 1, 2).toEpochDays() * 86400LL;
    long long t1 = (long long) LocalDate::forComponents(2049, 12, 30).toEpochDays() * 86400LL;
    int prev = offAt(t0);
    for (long long t = t0 + 86400; t < t1; t += 86400) {
      int cur = offAt(t);
      if (cur != prev && cur != 99999 && prev != 99999) {
        long long lo = t - 86400, hi = t;
        while (hi - lo > 1) { long long mid = (lo + hi) / 2; if (offAt(mid) == prev) lo = mid; else hi = mid; }
        if (offAt(hi) == cur) { ts.push_back(hi); o1s.push_back(prev); o2s.push_back(cur); }
      }
      prev = cur;
    }
    for (size_t i = 0; i < ts.size(); i++) {
      long long T = ts[i]; int o1 = o1s[i], o2 = o2s[i];
      // local (wall) seconds in the middle of the overlap (o2 < o1) or of the gap (o2 > o1), and just outside it
      long long locals[3] = {T + 30LL * (o1 + o2), T + 60LL * (o1 < o2 ? o1 : o2) - 600, T + 60LL * (o1 > o2 ? o1 : o2) + 600};
      long long befores[4] = {T - 40LL * 86400, T + 40LL * 86400, T - 1, T};
      for (int li = 0; li < 3; li++) for (int bi = 0; bi < 4; bi++) for (int k1 = 0; k1 < 2; k1++) {
        reset_all();
        handle(std::string("PROC ") + db);
        snprintf(b, sizeof(b), "TZ 0 %d", zi); handle(b);
        LocalDateTime l = LocalDateTime::forEpochSeconds((acetime_t) locals[li]);
        char a1[80], a2[96];
        snprintf(a1, sizeof(a1), "%s %lld", k1 ? "abbrev" : "off", befores[bi]);
        snprintf(a2, sizeof(a2), "odt %d %d %d %d %d %d", (int) l.year(), (int) l.month(), (int) l.day(), (int) l.hour(), (int) l.minute(), (int) l.second());
        handle(std::string("Q 0 ") + a1);
        std::string got = handle(std::string("Q 0 ") + a2), want = handle(std::string("F 0 ") + a2);
        n++;
        if (got != want) {
          if (bad < 10) printf("MISMATCH zone=%d hist=[%s; %s] got=%s fresh=%s\n", zi, a1, a2, got.c_str(), want.c_str());
          bad++;
        }
      }
    }
  }
  if (zj >= 0) aba(db, zi, zj, n, bad);
  printf("PAIRS zone=%d n=%llu bad=%llu\n", zi, n, bad);
  return 0;
}

// q(zoneA); q(zoneB); q(zoneA) on one shared processor
static void aba(char db, int zi, int zj, unsigned long long& n, unsigned long long& bad) {
  static const char* kinds[] = {"off", "delta", "abbrev", "odt", "print"};
  std::vector<int> years;
  for (int y = 1998; y <= 2051; y++) years.push_back(y);
  auto mkarg = [&](int k, int y) {
    char b[64];
    long long t = (long long) LocalDate::forComponents(y < 1873 ? 1873 : y, 7, 1).toEpochDays() * 86400LL + 43200;
    if (k == 3) snprintf(b, sizeof(b), "odt %d 7 1 12 0 0", y);
    else if (k == 4) snprintf(b, sizeof(b), "print");
    else snprintf(b, sizeof(b), "%s %lld", kinds[k], t);
    return std::string(b);
  };
  {
    // every ordered pair of years (the year the processor holds for A when it is re-bound x the year of the first query
    // for B); all 25 kind pairs when the years are equal, 9 otherwise
    for (int y1 : years) for (int y2 : years) for (int k1 = 0; k1 < 5; k1++) for (int k2 = 0; k2 < 5; k2++) {
      if (y1 != y2 && (k1 == 1 || k1 == 4 || k2 == 1 || k2 == 4)) continue;
      reset_all();
      handle(std::string("PROC ") + db);
      char b[64];
      snprintf(b, sizeof(b), "TZ 0 %d", zi); handle(b);
      snprintf(b, sizeof(b), "TZ 0 %d", zj); handle(b);
      std::string a1 = mkarg(k1, y1), a2 = mkarg(k2, y2);
      handle("Q 0 " + a1);
      std::string gotB = handle("Q 1 " + a2), wantB = handle("F 1 " + a2);
      std::string gotA = handle("Q 0 " + a2), wantA = handle("F 0 " + a2);
      n += 2;
      if (gotB != wantB || gotA != wantA) {
        if (bad < 10) printf("MISMATCH zones=%d,%d hist=[A:%s; B:%s; A:%s] gotB=%s freshB=%s gotA=%s freshA=%s\n", zi, zj,
            a1.c_str(), a2.c_str(), a2.c_str(), gotB.c_str(), wantB.c_str(), gotA.c_str(), wantA.c_str());
        bad++;
      }
    }
  }
}

// rebind <b|x> <zoneA> <zoneB>: only the q(A); q(B); q(A) histories (used for every ordered pair of zones with several eras)
static int rebind(char db, int zi, int zj) {
  unsigned long long n = 0, bad = 0;
  aba(db, zi, zj, n, bad);
  printf("PAIRS zone=%d n=%llu bad=%llu\n", zi, n, bad);
  return 0;
}

// eras <b|x>: number of eras of every zone
static int eras(char db) {
  int n = db == 'b' ? nB() : nX();
  for (int i = 0; i < n; i++)
    printf("ERAS %d %d\n", i, db == 'b' ? (int) basic::ZoneInfoBroker(infoB(i)).numEras() : (int) extended::ZoneInfoBroker(infoX(i)).numEras());
  return 0;
}

// alts <b|x> <from> <to>: one manager (cache size 1..4) is handed a zone and another edition of it (a distinct ZoneInfo
// with the same name and id) through createForZoneInfo, in both orders, with a third zone in between or not
static int alts(char db, int from, int to) {
  unsigned long long n = 0, bad = 0;
  int nz = db == 'b' ? nB() : nX();
  static const long long ts[3] = {252460800LL + 43200, 489024000LL, 1104537600LL + 15638400LL};   // 2008-01-01, 2015-07-01, 2035-07-01
  for (int zi = from; zi < to && zi < nz; zi++) for (int size = 1; size <= 4; size++) for (int order = 0; order < 2; order++)
  for (int between = 0; between < 2; between++) for (int k = 0; k < 3; k++) {
    reset_all();
    char b[96];
    int other = (zi + 1) % nz;
    snprintf(b, sizeof(b), "MGR %c %d 2 %d %d", db, size, zi < other ? zi : other, zi < other ? other : zi); handle(b);
    snprintf(b, sizeof(b), "MTZ 0 info %d", order ? zi + nz : zi); handle(b);
    snprintf(b, sizeof(b), "MTZ 0 info %d", order ? zi : zi + nz); handle(b);
    snprintf(b, sizeof(b), "MTZ 0 info %d", other); handle(b);
    static const char* kinds[3] = {"off", "abbrev", "zdt"};
    std::vector<int> seq = {0};
    if (between) seq.push_back(2);
    seq.push_back(1); seq.push_back(0);
    std::string hist;
    for (size_t i = 0; i < seq.size(); i++) {
      snprintf(b, sizeof(b), "%d %s %lld", seq[i], kinds[(k + i) % 3], ts[(k + (i > 0)) % 3]);
      std::string got = handle(std::string("Q ") + b), want = handle(std::string("F ") + b);
      hist += std::string(i ? "; " : "") + b;
      n++;
      if (got != want) {
        if (bad < 10) printf("MISMATCH zone=%d hist=[%s] size=%d first=%s got=%s fresh=%s\n", zi, hist.c_str(), size,
            order ? "other-edition" : "registry-edition", got.c_str(), want.c_str());
        bad++;
        break;
      }
    }
  }
  printf("PAIRS zone=%d n=%llu bad=%llu\n", from, n, bad);
  return 0;
}

int main(int argc, char** argv) {
  setvbuf(stdout, nullptr, _IOLBF, 0);
  if (argc >= 5 && !strcmp(argv[1], "pairs")) return pairs(argv[2][0], atoi(argv[3]), atoi(argv[4]));
  if (argc >= 5 && !strcmp(argv[1], "rebind")) return rebind(argv[2][0], atoi(argv[3]), atoi(argv[4]));
  if (argc >= 5 && !strcmp(argv[1], "alts")) return alts(argv[2][0], atoi(argv[3]), atoi(argv[4]));
  if (argc >= 3 && !strcmp(argv[1], "eras")) return eras(argv[2][0]);
  char* line = nullptr; size_t cap = 0;
  while (getline(&line, &cap, stdin) > 0) {
    std::string s(line);
    while (!s.empty() && (s.back() == '\n' || s.back() == '\r')) s.pop_back();
    if (s.empty()) continue;
    if (s == "DONE") { printf("= DONE\n"); fflush(stdout); continue; }
    // echo-before-execute so that a crash can be attributed to the command
    fprintf(stderr, "CMD %s\n", s.c_str());
    std::string r = handle(s);
    printf("= %s\n", r.c_str());
  }
  return 0;
}
