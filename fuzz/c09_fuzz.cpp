// libFuzzer target for C09 (build: -fsanitize=fuzzer,address,undefined -fsanitize-recover=undefined).
#include "../drv/c09_ops.h"
extern "C" void __sanitizer_set_death_callback(void (*callback)(void));
static void load_exclusions(const char* path) {
  gExclusions = new std::set<std::string>();
  if (!path) return;
  FILE* f = fopen(path, "r");
  if (!f) return;
  char line[256];
  while (fgets(line, sizeof(line), f)) { line[strcspn(line, "\r\n")] = 0; if (line[0]) gExclusions->insert(line); }
  fclose(f);
}
extern "C" int LLVMFuzzerInitialize(int*, char***) {
  gOutDir = getenv("C09_OUTDIR");
  load_exclusions(getenv("C09_EXCLUSIONS"));
  gAbortOnSemantic = false;
  __sanitizer_set_death_callback(on_death);
  return 0;
}
extern "C" int LLVMFuzzerTestOneInput(const uint8_t* data, size_t size) {
  run_ops(data, size);
  return 0;
}
