#!/venv/bin/python
"""Exploration (not a registered check): wild TZ sources through the Python path and, batched, through the generated C++
tables, against zic. Prints failure buckets with the smallest source of each. usage: tools/wild.py <n> <seed> <scope>"""
import os, sys, json, shutil
sys.path[:0] = ["/verif/pylib", "/verif/pylib/checks", os.path.join(os.environ.get("VERIF_REPO", "/repo"), "tools")]
os.environ.setdefault("SEANDST_ACETIME_VERIF", "1")
import hypothesis
from hypothesis import given, settings, Phase, HealthCheck
import tzgen, tzoracle, vt, compilelib, sweeplib, zonecheck, c03lib
import c03

n, seed, scope = int(sys.argv[1]), int(sys.argv[2]), sys.argv[3]
basic = scope == "basic"
work = vt.build_dir("WILD")
objs = []

@hypothesis.seed(seed)
@settings(max_examples=n, deadline=None, database=None, phases=[Phase.generate], suppress_health_check=list(HealthCheck))
@given(tzgen.source_wild(basic))
def gen(o):
    objs.append(o)
gen()

class Cnt:
    evaluations = 0

def job(a):
    i, text = a
    st_ = {"zic_rejected": 0, "zones_compared": 0}
    f = c03.check_generated_source(Cnt(), text, scope, 2000, 2050, os.path.join(work, "w%d" % i), "w", st_, None)
    return i, f, st_

res = vt.pmap(job, [(i, tzgen.render(o)) for i, o in enumerate(objs)])
buckets = {}
ok_idx = []
stats = {"zic_rejected": 0, "compared": 0, "inconclusive": 0, "removed": 0}
for i, f, st_ in res:
    stats["zic_rejected"] += st_["zic_rejected"]
    stats["compared"] += st_["zones_compared"]
    stats["inconclusive"] += st_.get("oracle_inconclusive", 0)
    if f:
        k = f["key"] + " :: " + f["msg"].split(":")[0][:60]
        buckets.setdefault(k, []).append((len(f["source"]), f))
    elif st_["zones_compared"]:
        ok_idx.append(i)
print("P path:", stats, "failures", sum(len(v) for v in buckets.values()))
# path A, batched
good = [objs[i] for i in ok_idx]
if good:
    text = "".join(tzgen.render(o, "S%d" % k) for k, o in enumerate(good))
    odir = os.path.join(work, "zic_batch")
    ok, err = tzoracle.zic_compile(text, odir)
    r = compilelib.compile_source(work, "batch", text, scope, "arduino", db_namespace="wild", tz_version="wild")
    import re as _re
    for _ in range(3):
        if r["rc"] == 0 or "kMaxTransitions" not in r["log"]:
            break
        bad = set(int(x) for x in _re.findall(r"Gen/S(\d+)Zone", r["log"].split("kMaxTransitions")[-1]))
        print("compiler refused %d sources (pool capacity); retrying without them" % len(bad))
        good = [o for k, o in enumerate(good) if k not in bad]
        text = "".join(tzgen.render(o, "S%d" % k) for k, o in enumerate(good))
        ok, err = tzoracle.zic_compile(text, odir)
        r = compilelib.compile_source(work, "batch", text, scope, "arduino", db_namespace="wild", tz_version="wild")
    if r["rc"] != 0:
        print("BATCH COMPILE FAILED", r["log"][-800:])
    else:
        tzj = compilelib.load_tzdb_json(r["outdir"])
        trunc = c03lib.truncated_zones(tzj)
        exe = compilelib.build_with_generated("WILD", "sweep_batch", "sweep.cpp", x_out=r["outdir"] if not basic else None, x_ns="wild",
                                              b_out=r["outdir"] if basic else None, b_ns="wild")
        db = "b" if basic else "x"
        listed = sweeplib.list_zones(exe, db)
        jobs = [dict(exe=exe, db=db, zi=zi, zone=z, odir=odir, t0=tzoracle.t_of(2000), t1=tzoracle.t_of(2050), stride=300, radius=120, nprobe=20, seed=seed)
                for zi, z in enumerate(listed) if z not in trunc]
        import re
        na = 0
        for rr in vt.pmap(zonecheck.check_zone, jobs):
            if rr["harness"]:
                continue
            na += 1
            m = re.match(r"Gen/S(\d+)", rr["zone"])
            single = tzgen.render(good[int(m.group(1))])
            for d in rr["diffs"][:1]:
                k = "A:%s:%s" % (scope, d["kind"])
                buckets.setdefault(k, []).append((len(single), {"key": k, "msg": json.dumps(d, default=str)[:300], "source": single}))
            if basic and rr.get("dropped"):
                buckets.setdefault("A:basic-dropped", []).append((len(single), {"key": "dropped", "msg": str(rr["dropped"]), "source": single}))
            if not basic and rr.get("highwater") is not None and not (rr["highwater"] < rr["bufsize"]):
                buckets.setdefault("A:bufsize", []).append((len(single), {"key": "bufsize", "msg": "%s >= %s" % (rr["highwater"], rr["bufsize"]), "source": single}))
        print("A path zones:", na, "emitted", len(listed), "removed", len(tzj["removed_zones"]))
for k, v in sorted(buckets.items()):
    v.sort(key=lambda x: x[0])
    print("=" * 100)
    print("BUCKET %s  (%d cases)" % (k, len(v)))
    for _, f_ in v[:int(os.environ.get("WILD_SHOW", "1"))]:
        print(f_["msg"][:400])
        print(f_["source"])
