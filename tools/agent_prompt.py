#!/usr/bin/env python3
"""Prints the prompt for a seeding sub-agent: property text + scratch worktree only (nothing from /verif)."""
import json, sys
pid = sys.argv[1]
n = int(sys.argv[2]) if len(sys.argv) > 2 else 2
wt = sys.argv[3] if len(sys.argv) > 3 else "/tmp/wt_%s" % pid
for l in open("/verif/properties.jsonl"):
    p = json.loads(l)
    if p["id"] == pid:
        break
import glob, os
prev = []
for mp in sorted(glob.glob("/verif/seeded/%s-*/meta.json" % pid)):
    try:
        prev.append(json.load(open(mp)).get("summary", "")[:300])
    except Exception:
        pass
already = ""
if prev:
    already = "\n\nChanges of the following kind have ALREADY been produced by someone else; do NOT repeat them or close variants (different file or mechanism is required):\n" + "\n".join("  - " + x for x in prev) + "\nAim for changes that are HARDER to notice than those: they should survive a check that compares the shipped data sets against an independent reference at ordinary inputs, and only show up for a rarer input class, a longer or more specific call history, a configuration that is not the default, or data that the shipped tables do not contain but the documented feature set allows.\n"
out_dir = ("out%d" % (len(prev) // 2 + 1)) if prev else "out"
print(f"""You are helping to evaluate a verification harness by producing *seeded defects* for the open-source project AceTime (an Arduino C++ date/time/timezone library plus Python tooling: a TZ-database compiler under tools/ and a Python reference implementation of the zone algorithm).

Your scratch git worktree of the repository is {wt} (already created, detached HEAD). Work ONLY inside {wt} (and /tmp/{pid}_work for any build output you need). Do NOT read, list or touch /verif or /repo, and do not look at other /tmp/wt_* directories.

The property that must hold for the code base:

  Title: {p['title']}
  Statement: {p['statement']}
  Quantified over: {p['quantifier']['text']}
  Files it is anchored in: {', '.join(p['anchors']['files'])}

Task: produce {n} DIFFERENT, independent source changes to the repository (each one a separate patch against the pristine worktree) such that each change
  (a) BREAKS the property above (for at least one input / history / configuration the property quantifies over),
  (b) still compiles (C++: `clang++ -std=c++11`; Python: imports fine), and
  (c) still passes the existing test suite:  cd {wt} && /venv/bin/python -m pytest -q -p no:cacheprovider tools/tests   (34 tests; note the C++ code has no runnable host tests in this suite),
  (d) is REALISTIC (the kind of slip a maintainer could make: off-by-one, wrong comparison, a stale cache flag, a swapped field, an edited table entry, a dropped normalisation step...) and SUBTLE: it must need something specific to manifest — an unusual input, a particular year/zone/boundary, a multi-step call sequence, a particular history or interleaving, or two cooperating sites that each look fine alone. Do NOT make changes that ordinary use would expose at once (e.g. every query returning garbage, every zone wrong all year).
  Prefer changes in different files / mechanisms from one another.{already} Edits to generated data tables (src/ace_time/zonedb*/ *.cpp) are allowed when the property is about them, but at most one of your changes may be a pure data edit.

For each change provide a DEMONSTRATION: a small self-contained program or script that FAILS (non-zero exit or prints a clear mismatch) with the change applied and PASSES on the pristine tree. For C++ you must build on the host: the library is Arduino code, so write your own minimal stand-ins (Arduino.h, Print.h, pgmspace.h, AceCommon.h providing ace_common::printPad2To / incrementMod / incrementModOffset / strcmp_PP / TimingStats; define -DUNIX_HOST_DUINO; `extern "C" unsigned long millis()`; a global `Print Serial`) in /tmp/{pid}_work/shim and compile src/ace_time/*.cpp, src/ace_time/common/DateStrings.cpp and the zonedb/zonedbx .cpp files together with your demo (do NOT include AceTime.h as a whole: hw/, NtpClock, DS3231Clock and SystemClockCoroutine do not build on a host; include the individual ace_time/*.h headers you need). For Python use /venv/bin/python with PYTHONPATH={wt}/tools. zic and zdump are installed (/usr/sbin/zic, /usr/bin/zdump) if you want an oracle. There is no network.

Deliverables, written under /tmp/{pid}_work/{out_dir}/<k>/ for k = 1..{n}:
  - patch.diff   : `git -C {wt} diff` output for that change alone (against pristine HEAD), applying cleanly with `git apply`
  - demo.sh (+ any files it needs, all inside that directory; the demo takes the repository root as $1): exits 0 on pristine tree, non-zero on patched tree
  - meta.json    : {{"property": "{pid}", "summary": "...", "needs_to_manifest": "what specific input/history/boundary it needs", "files_changed": [...], "verified": "commands you ran and what they printed"}}
After producing each patch, RESET the worktree (git -C {wt} checkout -- . ) before starting the next, and verify yourself: demo passes on pristine, fails on patched, pytest passes on patched. Leave the worktree pristine at the end. Keep build output small and delete object files when done.

Finish with a short report listing, per change, the one-line summary and the path of its directory. Do not ask questions; make reasonable decisions yourself.""")
