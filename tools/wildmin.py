#!/venv/bin/python
"""Minimise a failing wild source: tools/wildmin.py <source-file> <scope> <P|A>. Removes rules / eras one at a time while
the same kind of failure persists; prints the reduced source and the failure."""
import os, sys, json, re
sys.path[:0] = ["/verif/pylib", "/verif/pylib/checks", os.path.join(os.environ.get("VERIF_REPO", "/repo"), "tools")]
os.environ.setdefault("SEANDST_ACETIME_VERIF", "1")
import vt, c03, tzoracle, compilelib, sweeplib, zonecheck

text, scope, path = open(sys.argv[1]).read(), sys.argv[2], sys.argv[3]
work = vt.build_dir("WILDMIN")

class Cnt:
    evaluations = 0
    def __init__(self): self.v = []
    def violation(self, key, replay, msg):
        self.v.append((key, msg))
    seed = 1

def fails(t, n=[0]):
    n[0] += 1
    ok, err = tzoracle.zic_compile(t, os.path.join(work, "z%d" % n[0]))
    if not ok or "warning" in err.lower():
        return None
    if path == "P":
        f = c03.check_generated_source(Cnt(), t, scope, 2000, 2050, os.path.join(work, "m%d" % n[0]), "m", {"zic_rejected": 0, "zones_compared": 0}, None)
        return (f["key"], f["msg"]) if f else None
    c = Cnt()
    try:
        c03.probe_path_a(c, "min", scope, t, os.path.join(work, "a%d" % n[0]), 2000, 2050)
    except Exception as e:
        return ("exc", str(e)[:200])
    return c.v[0] if c.v else None

def kind(f):
    if f is None: return None
    m = re.search(r'"kind": "(\w+)"', f[1])
    return f[0].split(":")[0] + ":" + (m.group(1) if m else f[1][:20])

base = fails(text)
print("initial:", base)
if base is None:
    sys.exit(1)
k0 = kind(base)
lines = text.rstrip("\n").split("\n")
changed = True
while changed:
    changed = False
    for i in range(len(lines) - 1, -1, -1):
        if lines[i].startswith("Zone"):
            continue
        cand = lines[:i] + lines[i + 1:]
        # removing a non-final era line: fine; the last era must have no UNTIL -> strip it
        t = "\n".join(cand) + "\n"
        zl = [j for j, l in enumerate(cand) if l.startswith("Zone") or l.startswith("\t")]
        if not zl:
            continue
        last = cand[zl[-1]]
        parts = last.split("\t")
        f = fails(t)
        if f is not None and kind(f) == k0:
            lines = cand
            changed = True
            base = f
print("minimised (%s):" % k0)
print("\n".join(lines))
print(base[1][:600])
