#!/bin/bash
# tools/try_seed.sh <seed-dir> <Cxx> [more check ids...]
# Confirms a seeded change (patch.diff + demo.sh) in a scratch copy of /repo's HEAD and runs the
# given checks against the patched copy through VERIF_REPO. Nothing is applied to /repo itself.
# Prints a one-line verdict per step. Evidence/replays produced by the runs are discarded.
set -u
seed="$(cd "$1" && pwd)"; shift
scratch="$(mktemp -d /tmp/aceseed.XXXXXX)"
trap 'rm -rf "$scratch"' EXIT
git -C /repo archive HEAD | tar -x -C "$scratch"
cd "$scratch"
# 1. demo on pristine (current HEAD incl. our fixes)
( bash "$seed/demo.sh" "$scratch" >"$scratch/.demo0.log" 2>&1 ); d0=$?
if ! git apply --check "$seed/patch.diff" 2>/dev/null; then
  if patch -p1 --dry-run < "$seed/patch.diff" >/dev/null 2>&1; then patch -p1 -s < "$seed/patch.diff"; else echo "SEED $seed: PATCH DOES NOT APPLY to HEAD"; exit 3; fi
else
  git apply "$seed/patch.diff"
fi
( bash "$seed/demo.sh" "$scratch" >"$scratch/.demo1.log" 2>&1 ); d1=$?
pt=$(cd "$scratch" && /venv/bin/python -m pytest -q -p no:cacheprovider tools/tests 2>&1 | tail -1)
echo "SEED $(basename $(dirname $seed))/$(basename $seed): demo pristine rc=$d0, patched rc=$d1; pytest: $pt"
keep=/tmp/aceseed.keep.$$; mkdir -p $keep; cp -r /verif/evidence $keep/ev
for id in "$@"; do
  VERIF_REPO="$scratch" timeout 3000 /verif/check "$id" --tier "${SEED_TIER:-quick}" > "$scratch/.out.$id" 2>&1; rc=$?
  v=$(grep -c "^VIOLATION" "$scratch/.out.$id")
  echo "  check $id rc=$rc violations_lines=$v :: $(grep -A1 '^VIOLATION' "$scratch/.out.$id" | sed -n 2p | cut -c1-300)"
  [ $rc -eq 2 ] && grep -E "HARNESS|Error|error" "$scratch/.out.$id" | head -5
done
rm -rf /verif/evidence; mv $keep/ev /verif/evidence; rm -rf $keep
git -C /verif clean -fdq -e 'fixed_*' replays 2>/dev/null; git -C /verif checkout -q -- replays 2>/dev/null
exit 0
