#!/usr/bin/env python3
"""tools/import_seed.py <agent-out-dir> <seed-id> <property> <caught-by> <what I ran / observed>
Copies a confirmed seeded change into /verif/seeded/<seed-id>/ and extends meta.json."""
import json
import os
import shutil
import sys

src, sid, prop, caught, ran = sys.argv[1:6]
dst = os.path.join("/verif/seeded", sid)
if os.path.exists(dst):
    shutil.rmtree(dst)
shutil.copytree(src, dst, ignore=shutil.ignore_patterns("*.o", "*.bin", "a.out", "build", "__pycache__"))
mp = os.path.join(dst, "meta.json")
try:
    meta = json.load(open(mp))
except Exception:
    meta = {}
meta["property"] = prop
meta["confirmed_by_me"] = ran
meta["caught_by"] = caught
json.dump(meta, open(mp, "w"), indent=1)
size = sum(os.path.getsize(os.path.join(r, f)) for r, _, fs in os.walk(dst) for f in fs)
print("imported", dst, size, "bytes")
