#!/bin/bash
# ROUND=<k> tools/r3.sh <Cxx> <checks...> : try both round-k seeds of a property against the given checks; logs in /tmp/r3logs
p=$1; shift
R=${ROUND:-3}
mkdir -p /tmp/r3logs
for n in 1 2; do tools/try_seed.sh /tmp/${p}_work/out$R/$n "$@" > /tmp/r3logs/$p-$n.log 2>&1; cut -c1-330 /tmp/r3logs/$p-$n.log; done
