#!/bin/bash
# ROUND=<k> tools/r3imp.sh <Cxx> <n> <caught-by text> : import round-k seed n (1|2) as Cxx-(n+2(k-1)) with the try_seed log line
p=$1; n=$2; caught=$3
R=${ROUND:-3}
id=$p-$((n+2*(R-1)))
python3 tools/import_seed.py /tmp/${p}_work/out$R/$n $id $p "$caught" "tools/try_seed.sh: $(head -c 700 /tmp/r3logs/$p-$n.log | tr '\n' ' ')"
