#!/bin/bash
# tools/r3imp.sh <Cxx> <n> <caught-by text> : import round-3 seed n (1|2) as Cxx-(n+4) with the try_seed log line
p=$1; n=$2; caught=$3
id=$p-$((n+4))
python3 tools/import_seed.py /tmp/${p}_work/out3/$n $id $p "$caught" "tools/try_seed.sh: $(head -c 700 /tmp/r3logs/$p-$n.log | tr '\n' ' ')"
