#!/bin/bash
# tools/find_at.sh <repo-commit> <Cxx> : run the quick check against /repo as of <commit>; replays it writes are kept
c=$1; id=$2
scratch="$(mktemp -d /tmp/acefind.XXXXXX)"; trap 'rm -rf "$scratch"' EXIT
git -C /repo archive $c | tar -x -C "$scratch"
keep=/tmp/acefind.keep.$$; mkdir -p $keep; cp -r /verif/evidence $keep/ev
VERIF_REPO="$scratch" /verif/check $id 2>&1 | grep -A1 "^VIOLATION\|^KNOWN\|HARNESS\|^C[0-9][0-9] " | cut -c1-300
rm -rf /verif/evidence; mv $keep/ev /verif/evidence; rm -rf $keep
