#!/bin/bash
# tools/replay_at.sh <repo-commit> <Cxx> <replay.json> : run a saved replay against /repo as of <commit> (scratch copy)
c=$1; id=$2; f=$(readlink -f $3)
scratch="$(mktemp -d /tmp/acereplay.XXXXXX)"; trap 'rm -rf "$scratch"' EXIT
git -C /repo archive $c | tar -x -C "$scratch"
keep=/tmp/acereplay.keep.$$; mkdir -p $keep; cp -r /verif/evidence $keep/ev
VERIF_REPO="$scratch" /verif/check $id --replay $f 2>&1 | grep "^VIOLATION\|^KNOWN\|HARNESS\|^C[0-9][0-9] " | cut -c1-250
rm -rf /verif/evidence; mv $keep/ev /verif/evidence; rm -rf $keep
git -C /verif clean -fdq -e 'fixed_*' replays 2>/dev/null
