#!/bin/bash
# Offline setup after a fresh restore: make sure the interpreter used by the checks has hypothesis,
# and that the toolchain pieces the checks rely on exist. Builds nothing persistent: every check
# compiles the C++ under test from /repo's working tree itself.
set -u
cd "$(dirname "${BASH_SOURCE[0]}")"
export PIP_NO_INDEX=1
if ! /venv/bin/python -c "import hypothesis" 2>/dev/null; then
  /venv/bin/pip install --no-index --find-links /opt/veriftools/wheels hypothesis || exit 1
fi
mkdir -p .deps .build evidence replays
for t in clang++ zic zdump; do
  command -v $t >/dev/null 2>&1 || [ -x /usr/sbin/$t ] || { echo "missing tool $t"; exit 1; }
done
/venv/bin/python -c "import hypothesis, pytz, dateutil; print('python deps ok', hypothesis.__version__)" || exit 1
echo "setup ok"
