import json


def finish_zone_results(ctx, results, db, years=50):
    import vt
    fills = 0
    for r in results:
        if r["harness"]:
            raise vt.HarnessError(r["harness"])
        ctx.evaluations += r["evaluations"]
        ctx.nontrivial += r["transitions"]
        ctx.count("zones")
        ctx.count("oracle_transitions", r["transitions"])
        ctx.count("field_probes", r["probes"])
        ctx.count("per_second_window_points", r["window_points"])
        ctx.count("zones_without_transitions", 1 if r["transitions"] == 0 else 0)
        fills += years
        for s in r["samples"]:
            ctx.sample(s, cap=8)
        for d in r["diffs"]:
            key = "%s:%s@%s" % (d["kind"], r["zone"], d.get("t", d.get("where")))
            ctx.violation(key, {"zone": r["zone"], "db": db, "diff": d},
                          "%s zone %s: %s" % (d["kind"], r["zone"], json.dumps(d, default=str)[:1500]))
        if r.get("dropped"):
            ctx.violation("dropped:%s" % r["zone"], {"zone": r["zone"], "db": db, "dropped": r["dropped"]},
                          "basic processor dropped %d transitions for %s (5 cache slots exceeded)" %
                          (r["dropped"], r["zone"]))
    ctx.nontrivial += fills
    ctx.count("zone_year_cache_fills", fills)
    ctx.extra["zones_checked"] = len(results)
    ctx.exhaustive = ctx.tier == "thorough"
    ctx.rule = ("every zone of the registry x [2000,2050): " +
                ("every second (literal sweep)" if ctx.tier == "thorough" else
                 "60 s stride with per-second location of every change, plus every second within +-120 s of every "
                 "oracle transition and every library change (fresh processor per window)") +
                "; RLE stream of (t_change, utoff, isdst, abbrev) must equal the zic oracle's; ZonedDateTime "
                "fields probed at every transition +-1 s, every month/year boundary, Feb 28/29 and seed-drawn "
                "instants vs datetime arithmetic. Non-trivial = distinct (zone, oracle transition) pairs + "
                "distinct (zone, year) cache fills")
