"""Common machinery for the /verif checks: build, evidence, replays, known findings.

Exit codes of every check: 0 = property held on everything explored,
1 = VIOLATION line printed, 2 = harness error (never a VIOLATION).
"""
import atexit
import json
import os
import shutil
import subprocess
import sys
import time
import traceback
from concurrent.futures import ThreadPoolExecutor

VERIF = os.path.dirname(os.path.dirname(os.path.abspath(__file__)))
REPO = os.environ.get("VERIF_REPO", "/repo")
SHIM = os.path.join(VERIF, "shim")
DRV = os.path.join(VERIF, "drv")
GUARD = "SEANDST_ACETIME_VERIF"
NCPU = int(os.environ.get("VERIF_JOBS", "16"))

LIB_SOURCES = [
    "BasicZoneProcessor.cpp", "ExtendedZoneProcessor.cpp", "LocalDate.cpp",
    "LocalDateTime.cpp", "LocalTime.cpp", "OffsetDateTime.cpp", "TimeOffset.cpp",
    "TimePeriod.cpp", "TimeZone.cpp", "ZonedDateTime.cpp", "common/DateStrings.cpp",
]
DB_SOURCES = [
    "zonedb/zone_infos.cpp", "zonedb/zone_policies.cpp", "zonedb/zone_registry.cpp",
    "zonedbx/zone_infos.cpp", "zonedbx/zone_policies.cpp", "zonedbx/zone_registry.cpp",
]


class HarnessError(Exception):
    """Something in the checking machinery (not the code under test) failed."""


def seed():
    return int(os.environ.get("VERIF_SEED", "1"))


def tier_from_env(default="quick"):
    t = os.environ.get("VERIF_TIER", default)
    return t if t in ("quick", "thorough") else default


# --------------------------------------------------------------------------
# build
# --------------------------------------------------------------------------

_build_dirs = []
_built = {}


def _cleanup():
    for d in _build_dirs:
        shutil.rmtree(d, ignore_errors=True)


atexit.register(_cleanup)


def build_dir(check_id):
    d = os.path.join(VERIF, ".build", "%s.%d" % (check_id, os.getpid()))
    os.makedirs(d, exist_ok=True)
    if d not in _build_dirs:
        _build_dirs.append(d)
    return d


SAN_FLAGS = ["-O1", "-g", "-fno-omit-frame-pointer",
             "-fsanitize=address,undefined", "-fno-sanitize-recover=undefined"]


def base_flags(repo=None, hooks=True):
    repo = repo or REPO
    f = ["-std=c++11", "-DUNIX_HOST_DUINO", "-I" + SHIM, "-I" + os.path.join(repo, "src"),
         "-Wno-deprecated-declarations"]
    if hooks and os.environ.get(GUARD, "1") == "1":
        f.append("-D%s=1" % GUARD)
    return f


def _run_cc(cmd):
    p = subprocess.run(cmd, stdout=subprocess.PIPE, stderr=subprocess.STDOUT, text=True)
    return p.returncode, p.stdout, cmd


def build(check_id, name, drivers, sanitize=False, opt="-O2", extra=(), with_db=True,
          extra_sources=(), lib_sources=None, db_sources=None, repo=None, fuzzer=False,
          recover=False):
    """Compile driver(s) + library from the current tree of REPO. Returns exe path.

    A compile failure of the *library* sources is a harness error (exit 2): the
    brief says changes under test still compile.
    """
    repo = repo or REPO
    d = build_dir(check_id)
    memo = (check_id, name, tuple(drivers), sanitize, opt, tuple(extra), with_db, tuple(extra_sources),
            tuple(lib_sources) if lib_sources is not None else None, tuple(db_sources) if db_sources is not None else None,
            repo, fuzzer, recover)
    # builds that include generated sources are never reused (same paths, different contents)
    if not extra_sources and memo in _built and os.path.exists(_built[memo]):
        return _built[memo]
    objdir = os.path.join(d, name + ".o")
    os.makedirs(objdir, exist_ok=True)
    flags = base_flags(repo)
    if sanitize:
        san = list(SAN_FLAGS)
        if recover:
            san = [x for x in san if x != "-fno-sanitize-recover=undefined"]
        if fuzzer:
            san = [x.replace("-fsanitize=address,undefined", "-fsanitize=fuzzer,address,undefined")
                   for x in san]
        flags += san
    else:
        flags += [opt]
        if fuzzer:
            flags += ["-fsanitize=fuzzer"]
    flags += list(extra)
    srcs = []
    for s in (lib_sources if lib_sources is not None else LIB_SOURCES):
        srcs.append(os.path.join(repo, "src/ace_time", s))
    if with_db:
        for s in (db_sources if db_sources is not None else DB_SOURCES):
            srcs.append(os.path.join(repo, "src/ace_time", s))
    srcs.append(os.path.join(SHIM, "shim.cpp"))
    for s in drivers:
        srcs.append(s if os.path.isabs(s) else os.path.join(DRV, s))
    srcs += list(extra_sources)
    jobs = []
    objs = []
    for i, s in enumerate(srcs):
        o = os.path.join(objdir, "%d_%s.o" % (i, os.path.basename(s)))
        objs.append(o)
        cflags = list(flags)
        if fuzzer:
            # only the link and the fuzz target need the fuzzer runtime, but
            # coverage instrumentation everywhere helps the search
            pass
        jobs.append(["clang++"] + cflags + ["-c", s, "-o", o])
    with ThreadPoolExecutor(NCPU) as ex:
        results = list(ex.map(_run_cc, jobs))
    for rc, out, cmd in results:
        if rc != 0:
            raise HarnessError("compile failed: %s\n%s" % (" ".join(cmd), out[-4000:]))
    exe = os.path.join(d, name)
    lflags = [f for f in flags if f.startswith("-fsanitize") or f in ("-g",)]
    rc, out, cmd = _run_cc(["clang++"] + lflags + objs + ["-o", exe])
    if rc != 0:
        raise HarnessError("link failed: %s\n%s" % (" ".join(cmd), out[-4000:]))
    _built[memo] = exe
    return exe


SAN_ENV = {
    "ASAN_OPTIONS": "detect_leaks=0:abort_on_error=0:exitcode=99:allocator_may_return_null=1",
    "UBSAN_OPTIONS": "print_stacktrace=1:halt_on_error=1:exitcode=98",
}


def run_exe(exe, args=(), stdin=None, timeout=None, env_extra=None, binary=False):
    env = dict(os.environ)
    env.update(SAN_ENV)
    if env_extra:
        env.update(env_extra)
    # always read bytes: the code under test may print arbitrary bytes (e.g. an unterminated abbreviation); text mode would
    # turn that into a harness exception instead of an observable difference
    if stdin is not None and not isinstance(stdin, bytes):
        stdin = stdin.encode("utf-8")
    try:
        p = subprocess.run([exe] + [str(a) for a in args], input=stdin, stdout=subprocess.PIPE,
                           stderr=subprocess.PIPE, timeout=timeout, env=env)
    except subprocess.TimeoutExpired as e:
        out = e.stdout or b""
        return -999, (out if binary else out.decode("utf-8", "backslashreplace")), "TIMEOUT"
    return (p.returncode, p.stdout if binary else p.stdout.decode("utf-8", "backslashreplace"),
            p.stderr.decode("utf-8", "replace"))


def pmap(fn, items, procs=None):
    """multiprocessing map with fresh workers (fork)."""
    import multiprocessing as mp
    procs = procs or NCPU
    if len(items) == 0:
        return []
    with mp.get_context("fork").Pool(min(procs, len(items))) as pool:
        return pool.map(fn, items, chunksize=1)


# --------------------------------------------------------------------------
# known findings
# --------------------------------------------------------------------------

def known_findings(prop):
    """Return {key: text} of `known:` lines for this property. `fixed:` lines suppress nothing."""
    out = {}
    path = os.path.join(VERIF, "KNOWN_FINDINGS.txt")
    if not os.path.exists(path):
        return out
    for line in open(path):
        line = line.strip()
        if not line.startswith("known:"):
            continue
        body = line[len("known:"):].strip()
        head, _, text = body.partition("::")
        fields = dict(kv.split("=", 1) for kv in head.split() if "=" in kv)
        if fields.get("property") == prop and "key" in fields:
            out[fields["key"]] = text.strip()
    return out


# --------------------------------------------------------------------------
# check context
# --------------------------------------------------------------------------

class Ctx:
    def __init__(self, prop, tier, replay=None, level="exploration"):
        self.prop = prop
        self.tier = tier
        self.seed = seed()
        self.replay = replay
        self.level = level
        self.t0 = time.time()
        self.evaluations = 0
        self.nontrivial = 0
        self.rule = ""
        self.samples = []
        self.hist = {}
        self.exhaustive = False
        self.assumptions = []
        self.extra = {}
        self.violations = []      # (key, replay_path, message)
        self.known_hits = {}      # key -> count
        self.known = known_findings(prop)
        self._replay_n = 0
        self._vkeys = set()
        self.violations_dropped = 0

    # counting helpers
    def count(self, cls, n=1):
        self.hist[cls] = self.hist.get(cls, 0) + n

    def sample(self, s, cap=12):
        if len(self.samples) < cap:
            self.samples.append(s)

    def violation(self, key, replay_obj, message):
        """Record a failure. If `key` is listed as known: count it, else VIOLATION."""
        if key in self.known:
            if key not in self.known_hits:
                print("KNOWN-FINDING: property=%s %s :: %s" % (self.prop, key, self.known[key]))
            self.known_hits[key] = self.known_hits.get(key, 0) + 1
            return False
        if key in self._vkeys or len(self._vkeys) >= 25:
            if len(self.violations) < 100000:
                self.violations.append((key, None, message))
            else:
                self.violations_dropped += 1
            return True
        self._vkeys.add(key)
        self._replay_n += 1
        rdir = os.path.join(VERIF, "replays", self.prop)
        os.makedirs(rdir, exist_ok=True)
        safe = "".join(c if c.isalnum() or c in "-_." else "_" for c in key)[:80]
        path = os.path.join(rdir, "%s_%s.json" % (self.tier[0], safe))
        with open(path, "w") as f:
            json.dump({"property": self.prop, "key": key, "message": message,
                       "seed": self.seed, "tier": self.tier, "replay": replay_obj}, f, indent=1,
                      sort_keys=True, default=str)
        print("VIOLATION property=%s replay=%s" % (self.prop, path))
        print("  " + message.replace("\n", "\n  ")[:3000])
        self.violations.append((key, path, message))
        return True

    def write_evidence(self):
        cov = {
            "evaluations": int(self.evaluations),
            "distinct_nontrivial": int(self.nontrivial),
            "rule": self.rule,
            "samples": self.samples,
            "class_histogram": self.hist,
            "exhaustive": bool(self.exhaustive),
            "known_finding_hits": self.known_hits,
        }
        cov.update(self.extra)
        ev = {
            "property_id": self.prop,
            "tier": self.tier,
            "seed": self.seed,
            "level": self.level,
            "coverage": cov,
            "assumptions": self.assumptions,
            "wall_s": round(time.time() - self.t0, 2),
            "violations": len(self.violations),
        }
        os.makedirs(os.path.join(VERIF, "evidence"), exist_ok=True)
        path = os.path.join(VERIF, "evidence", self.prop + ".json")
        tmp = path + ".tmp%d" % os.getpid()
        with open(tmp, "w") as f:
            json.dump(ev, f, indent=1, default=str)
        os.replace(tmp, path)


def main(prop, run, argv=None, level="exploration"):
    import argparse
    ap = argparse.ArgumentParser()
    ap.add_argument("--tier", default=tier_from_env())
    ap.add_argument("--replay", default=None)
    a = ap.parse_args(argv)
    ctx = Ctx(prop, a.tier, a.replay, level)
    try:
        run(ctx)
    except HarnessError as e:
        print("HARNESS-ERROR property=%s: %s" % (prop, e))
        sys.exit(2)
    except Exception:
        traceback.print_exc()
        print("HARNESS-ERROR property=%s: unexpected exception in the check itself" % prop)
        sys.exit(2)
    if a.replay is None and os.environ.get("VERIF_SKIP_FIXED_REPLAYS") != "1":
        # regression tier: the saved minimal input of every repaired finding is replayed on every run, so that a defect
        # that returns is reported even when the generated search does not happen to rediscover it
        import glob
        fixed = sorted(glob.glob(os.path.join(VERIF, "replays", prop, "fixed_*.json")))
        for path in fixed:
            sub = Ctx(prop, a.tier, path, level)
            sub.known = ctx.known
            sub.known_hits = ctx.known_hits
            try:
                run(sub)
            except HarnessError as e:
                print("HARNESS-ERROR property=%s (replay %s): %s" % (prop, os.path.basename(path), e))
                sys.exit(2)
            except Exception:
                traceback.print_exc()
                print("HARNESS-ERROR property=%s: unexpected exception while replaying %s" % (prop, os.path.basename(path)))
                sys.exit(2)
            for key, rp, msg in sub.violations:
                if rp is not None:
                    # the sub-context already printed a VIOLATION line naming the file it wrote
                    ctx.violations.append(("replay:" + key, rp, msg))
        ctx.extra["fixed_replays_run"] = [os.path.basename(p_) for p_ in fixed]
    if a.replay is None:
        if (ctx.evaluations < 1 or ctx.nontrivial < 2) and not ctx.violations:
            ctx.write_evidence()
            print("HARNESS-ERROR property=%s: degenerate run (evaluations=%d nontrivial=%d)" %
                  (prop, ctx.evaluations, ctx.nontrivial))
            sys.exit(2)
        ctx.write_evidence()
    print("%s tier=%s seed=%d evaluations=%d nontrivial=%d violations=%d known=%d wall=%.1fs" % (
        prop, ctx.tier, ctx.seed, ctx.evaluations, ctx.nontrivial, len(ctx.violations),
        sum(ctx.known_hits.values()), time.time() - ctx.t0))
    sys.exit(1 if ctx.violations else 0)
