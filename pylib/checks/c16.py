"""C16 - TimeZone is a faithful value: equality, manual offsets, save/restore."""
import json
import random

import hypothesis
from hypothesis import given, settings, strategies as st, Phase, HealthCheck

import rpcdrv
import sweeplib
import tzoracle
import vt

NAMES = {}
IDS = {}


def djb2(s):
    h = 5381
    for c in s.encode():
        h = (h * 33 + c) & 0xFFFFFFFF
    return h


class S:
    """session helper around the rpc driver"""

    def __init__(self, ctx, drv):
        self.ctx, self.drv = ctx, drv
        self.hist = []

    def c(self, line):
        self.hist.append(line)
        try:
            return self.drv.cmd(line, timeout=5)
        except (rpcdrv.Crash, rpcdrv.Hang) as e:
            self.ctx.violation("crash:" + (e.bucket()[:70] if isinstance(e, rpcdrv.Crash) else "hang"),
                               {"commands": self.hist[-40:]}, "driver crashed/hung on %r: %s" % (line, getattr(e, "stderr", "")[-600:]))
            self.hist = []
            raise

    def reset(self):
        self.hist = []
        self.c("RESET")

    def fail(self, key, msg):
        self.ctx.violation(key, {"commands": self.hist[-60:]}, msg)


def probe_args(rnd, n_inst=50, n_wall=20):
    out = []
    for _ in range(n_inst):
        out.append("off %d" % rnd.randrange(sweeplib.T0, sweeplib.T1))
        out.append("abbrev %d" % rnd.randrange(sweeplib.T0, sweeplib.T1))
    for _ in range(n_wall):
        out.append("odt %d %d %d %d %d 0" % (rnd.randrange(2001, 2049), rnd.randrange(1, 13), rnd.randrange(1, 29),
                                            rnd.randrange(24), rnd.randrange(60)))
    out += ["print", "short", "id", "delta %d" % rnd.randrange(sweeplib.T0, sweeplib.T1)]
    return out


def run(ctx):
    ctx.assumptions = ["model of the value: kind in {error, manual(std,dst), zone(type, zone info)}; equality = same type and same "
                       "zone info / same offsets", "answers of a restored zone are compared with a fresh directly bound time zone "
                       "(C08's differential)", "ASan+UBSan build"]
    exe = vt.build("C16", "rpc_san", ["rpc.cpp"], sanitize=True)
    sw = sweeplib.build_sweep("C16", "sweep_list")
    for db in ("b", "x"):
        NAMES[db] = sweeplib.list_zones(sw, db)
        IDS[db] = [djb2(n) for n in NAMES[db]]
    drv = rpcdrv.Driver(exe)
    s = S(ctx, drv)
    if ctx.replay:
        r = json.load(open(ctx.replay))["replay"]
        for line in r["commands"]:
            print(line, "->", drv.cmd(line, timeout=5))
        ctx.evaluations = 1
        return
    thorough = ctx.tier == "thorough"
    rnd = random.Random(ctx.seed)
    nt = set()
    TYPE = {"b": ("2", "4"), "x": ("3", "5")}
    try:
        # ---- a. every zone of both registries: save / restore through the full manager ----
        for db in ("b", "x"):
            s.reset()
            s.c("PROC " + db)
            mgr = int(s.c("MGRFULL %s 2" % db))
            other = "x" if db == "b" else "b"
            omgr = int(s.c("MGRFULL %s 2" % other))
            for zi, name in enumerate(NAMES[db]):
                if zi % 60 == 0 and zi:
                    # keep the object table small
                    s.reset()
                    s.c("PROC " + db)
                    mgr = int(s.c("MGRFULL %s 2" % db))
                    omgr = int(s.c("MGRFULL %s 2" % other))
                direct = int(s.c("TZ 0 %d" % zi))
                made = {}
                for how, arg in (("name", rpcdrv.hexname(name)), ("id", IDS[db][zi]), ("index", zi), ("info", zi)):
                    r = s.c("MTZ %d %s %s" % (mgr, how, arg)).split()
                    made[how] = int(r[0])
                    if r[1] != TYPE[db][1]:
                        s.fail("managed-type:%s" % how, "createFor %s(%s) gave type %s" % (how, name, r[1]))
                for src_label, src in [("direct", direct)] + list(made.items()):
                    ctx.evaluations += 1
                    data = s.c("Q %d data" % src)
                    if data != "zoneid %d" % IDS[db][zi]:
                        s.fail("data:%s" % src_label, "toTimeZoneData() of %s %s (%s) = %r" % (db, name, src_label, data))
                    r = s.c("MTZ %d data %d" % (mgr, src)).split()
                    rest = int(r[0])
                    nt.add((db, name, src_label))
                    eq = s.c("EQ %d %d" % (rest, made["id"]))
                    if r[1] != TYPE[db][1] or eq != "1 0":
                        s.fail("restore-eq:%s" % src_label, "restore(save(%s %s via %s)) type %s, == createForZoneId: %s" %
                               (db, name, src_label, r[1], eq))
                    if src_label in ("direct", "name"):
                        for a in probe_args(rnd, 6 if not thorough else 50, 3 if not thorough else 20):
                            got, want = s.c("Q %d %s" % (rest, a)), s.c("F %d %s" % (direct, a))
                            ctx.evaluations += 1
                            if got != want:
                                s.fail("restore-answers", "restored %s %s answers %s for %r, fresh zone answers %s" % (db, name, got, a, want))
                                break
                # restore through the other database's manager: present -> that manager's zone with this id, absent -> error
                r = s.c("MTZ %d data %d" % (omgr, direct)).split()
                present = name in NAMES[other]
                if present:
                    zid = s.c("Q %s id" % r[0])
                    if r[1] != TYPE[other][1] or int(zid) != IDS[db][zi]:
                        s.fail("restore-otherdb", "restoring %s through the %s manager gave type %s id %s" % (name, other, r[1], zid))
                elif r[1] != "0":
                    s.fail("restore-absent-otherdb", "id of %s is not in the %s registry but restore gave type %s" % (name, other, r[1]))
                nt.add((db, name, "otherdb", present))
        # ---- b. manual zones ----
        s.reset()
        mgr = int(s.c("MGRFULL x 1"))
        grid = [(sd, dd) for sd in range(-960, 961, 15) for dd in range(-60, 121, 15)]
        grid += [(32767, 0), (-32767, 0), (0, 32767), (1, 0), (-1, 0), (0, 1), (959, 1)]
        for n, (sd, dd) in enumerate(grid):
            if n % 200 == 0 and n:
                s.reset()
                mgr = int(s.c("MGRFULL x 1"))
            t = int(s.c("TZMAN %d %d" % (sd, dd)))
            ctx.evaluations += 1
            data = s.c("Q %d data" % t)
            std = s.c("Q %d std" % t)
            if data != "manual %d %d" % (sd, dd) or std.split()[:2] != [str(sd), str(dd)]:
                s.fail("manual-data", "manual zone (%d,%d): data %r std %r" % (sd, dd, data, std))
            r = s.c("MTZ %d data %d" % (mgr, t)).split()
            eq = s.c("EQ %s %d" % (r[0], t))
            std2 = s.c("Q %s std" % r[0])
            if r[1] != "1" or eq != "1 0" or std2 != std:
                s.fail("manual-restore", "manual zone (%d,%d) restored as type %s, equal=%s, offsets %r" % (sd, dd, r[1], eq, std2))
            if -32768 < sd + dd < 32768:
                for tt in (0, rnd.randrange(-2**31 + 1, 2**31 - 1), -1):
                    off = s.c("Q %d off %d" % (t, tt))
                    dl = s.c("Q %d delta %d" % (t, tt))
                    if off != str(sd + dd) or dl != str(dd):
                        s.fail("manual-offset", "manual zone (%d,%d): getUtcOffset=%s getDeltaOffset=%s" % (sd, dd, off, dl))
            nt.add(("manual", sd, dd))
        # ---- c. error zones and ids not in the registry ----
        s.reset()
        e = int(s.c("TZERR"))
        for db, order in (("b", "by-name"), ("x", "by-name"), ("b", "by-id"), ("x", "by-id")):
            # the registry lists its zones in ascending name order (as the shipped ones do) or in ascending zone-id order
            sub = sorted(rnd.sample(range(len(NAMES[db])), 12))
            if order == "by-id":
                sub = sorted(sub, key=lambda z: IDS[db][z])
            m = int(s.c("MGR %s 2 %d %s" % (db, len(sub), " ".join(map(str, sub)))))
            r = s.c("MTZ %d data %d" % (m, e)).split()
            if r[1] != "0" or s.c("Q %d data" % e).split()[0] != "error":
                s.fail("error-restore", "error zone restored as type %s" % r[1])
            s.c("PROC " + db)
            pid = len([h for h in s.hist if h.startswith("PROC")]) - 1
            for zi in sub + rnd.sample(range(len(NAMES[db])), 40):
                t = int(s.c("TZ %d %d" % (pid, zi)))
                r = s.c("MTZ %d data %d" % (m, t)).split()
                ctx.evaluations += 1
                nt.add((db, "subset", order, zi in sub))
                if zi in sub:
                    if r[1] != TYPE[db][1] or int(s.c("Q %s id" % r[0])) != IDS[db][zi]:
                        s.fail("subset-present", "zone %s present in the registry restored as type %s" % (NAMES[db][zi], r[1]))
                elif r[1] != "0":
                    s.fail("subset-absent", "zone %s is not in the registry but restore gave type %s (not the error zone)" %
                           (NAMES[db][zi], r[1]))
            # raw serialised forms: every type byte
            for typ in range(256):
                r = s.c("MTZ %d rawdata %d %d %d" % (m, typ, IDS[db][sub[0]] if typ == 2 else 30, 60)).split()
                ctx.evaluations += 1
                if typ == 0 and r[1] != "0":
                    s.fail("raw-error", "TimeZoneData type 0 restored as type %s" % r[1])
                if typ == 1 and (r[1] != "1" or s.c("Q %s std" % r[0]).split()[:2] != ["30", "60"]):
                    s.fail("raw-manual", "TimeZoneData manual (30,60) restored as type %s" % r[1])
                if typ == 2 and (r[1] != TYPE[db][1] or int(s.c("Q %s id" % r[0])) != IDS[db][sub[0]]):
                    s.fail("raw-zoneid", "TimeZoneData zone id restored as type %s" % r[1])
                s.c("Q %s print" % r[0])      # any result must be a usable TimeZone
            # serialised zone ids that the registry does not contain (0, 1, all-ones, ids of zones outside it, random ones):
            # restoring gives the error zone, exactly as a lookup of that id does
            absent = [0, 1, 2, 0xFFFFFFFF, 0x80000000, 5381] + [IDS[db][z] for z in rnd.sample([z for z in range(len(NAMES[db])) if z not in sub], 5)] + \
                     [rnd.randrange(2**32) for _ in range(10)]
            for aid in absent:
                if aid in [IDS[db][z] for z in sub]:
                    continue
                r = s.c("MTZ %d rawdata 2 %d 0" % (m, aid)).split()
                r2 = s.c("MTZ %d id %d" % (m, aid)).split()
                ctx.evaluations += 1
                nt.add((db, "absent-id", aid if aid < 3 or aid == 0xFFFFFFFF else "other"))
                if r[1] != "0" or r2[1] != "0":
                    s.fail("raw-absent-id", "zone id %#x is not in the registry: the saved record restored as type %s and createForZoneId gave type %s, want the error zone (type 0) from both" % (aid, r[1], r2[1]))
        # ---- e. equality over pools with duplicates of every kind ----
        pools = [0]

        @hypothesis.seed(ctx.seed)
        @settings(max_examples=60 if thorough else 12, deadline=None, database=None, phases=[Phase.generate],
                  suppress_health_check=list(HealthCheck))
        @given(st.lists(st.one_of(
            st.tuples(st.just("direct"), st.sampled_from(["b", "x"]), st.integers(0, 5), st.integers(0, 1)),
            st.tuples(st.just("managed"), st.sampled_from(["b", "x"]), st.integers(0, 5), st.integers(0, 1)),
            st.tuples(st.just("manual"), st.sampled_from([-480, 0, 60, 330]), st.sampled_from([0, 60, 30, -60]), st.just(0)),
            st.tuples(st.just("err"), st.just(0), st.just(0), st.just(0)),
            st.tuples(st.just("utc"), st.just(0), st.just(0), st.just(0))), min_size=30, max_size=60))
        def pool(items):
            pools[0] += 1
            s.reset()
            s.c("PROC b"); s.c("PROC x"); s.c("PROC b"); s.c("PROC x")
            zsel = {"b": sorted(rnd.sample(range(len(NAMES["b"])), 6)), "x": sorted(rnd.sample(range(len(NAMES["x"])), 6))}
            mg = {}
            for db in ("b", "x"):
                for k in (0, 1):
                    mg[(db, k)] = int(s.c("MGR %s %d 6 %s" % (db, k + 1, " ".join(map(str, zsel[db])))))
            model = []
            ids = []
            for it in items:
                if it[0] == "direct":
                    p = {"b": 0, "x": 1}[it[1]] + 2 * it[3]
                    ids.append(int(s.c("TZ %d %d" % (p, zsel[it[1]][it[2]]))))
                    model.append(("direct", it[1], zsel[it[1]][it[2]]))
                elif it[0] == "managed":
                    ids.append(int(s.c("MTZ %d index %d" % (mg[(it[1], it[3])], it[2])).split()[0]))
                    model.append(("managed", it[1], zsel[it[1]][it[2]]))
                elif it[0] == "manual":
                    ids.append(int(s.c("TZMAN %d %d" % (it[1], it[2]))))
                    model.append(("manual", it[1], it[2]))
                elif it[0] == "err":
                    ids.append(int(s.c("TZERR")))
                    model.append(("error",))
                else:
                    ids.append(int(s.c("TZUTC")))
                    model.append(("manual", 0, 0))
            for i in range(len(ids)):
                for j in range(len(ids)):
                    want = "1 0" if model[i] == model[j] else "0 1"
                    got = s.c("EQ %d %d" % (ids[i], ids[j]))
                    ctx.evaluations += 1
                    if model[i][0] != model[j][0]:
                        nt.add(("cross-kind", model[i][0], model[j][0]))
                    if got != want:
                        s.fail("equality:%s:%s" % (model[i][0], model[j][0]),
                               "operator==/!= of %r and %r gives %s, model says %s" % (model[i], model[j], got, want))
                        return

        pool()
        ctx.count("equality_pools", pools[0])
    except (rpcdrv.Crash, rpcdrv.Hang):
        pass
    ctx.nontrivial = len(nt)
    ctx.sample({"zone": "America/Los_Angeles", "saved": "zoneid %d" % djb2("America/Los_Angeles"), "restored_via": "createForTimeZoneData"})
    ctx.sample({"manual": [-480, 60], "saved": "manual -480 60"})
    ctx.sample({"equality_pool_item_kinds": ["direct b/x on two processors", "managed b/x from two managers", "manual", "error", "utc"]})
    drv.close()
    ctx.rule = ("every zone of both registries as direct and manager-created (by name, id, index, info) time zones: save, restore "
                "through the full manager (== createForZoneId, same answers as a fresh zone on seed-drawn instants / wall times), "
                "through the other database's manager and through subset registries that do / do not contain the zone; manual "
                "zones on the grid -16:00..+16:00 x -1:00..+2:00 step 15 min + extremes (restore, offset = std + dst); error zones; "
                "all 256 serialised type bytes; operator==/!= over Hypothesis-drawn pools of 30..60 values of every kind with "
                "duplicates against the value model. Non-trivial = distinct restores through a manager and cross-kind equality pairs")


if __name__ == "__main__":
    vt.main("C16", run)
