"""C13 - SystemClock keeps exact time from millis(), across counter wrap-around."""
import json
import random
import subprocess
import os

import hypothesis
from hypothesis import settings, strategies as st, Phase, HealthCheck
from hypothesis.stateful import RuleBasedStateMachine, rule, precondition, initialize, run_state_machine_as_test

import vt

I32MIN = -2**31
EXE = None
PROC = None
FAILS = []
STATS = {"unpolled_advances": 0, "runs": 0, "steps": 0, "reads": 0, "nontrivial": set(), "reset_same_second": 0, "wrap16": 0, "wrap32": 0,
         "sentinel_sets": 0, "max_gap_steps": 0}
SAMPLES = []


def proc():
    global PROC
    if PROC is None or PROC.poll() is not None:
        PROC = subprocess.Popen([EXE], stdin=subprocess.PIPE, stdout=subprocess.PIPE, text=True, bufsize=1)
    return PROC


def cmd(line):
    p = proc()
    p.stdin.write(line + "\n")
    p.stdin.flush()
    r = p.stdout.readline()
    if not r:
        raise vt.HarnessError("clock driver died on %r" % line)
    return r[2:].strip()


class Model:
    """Reference model from the property text, in unbounded integers.
    candidates: list of (m0, T) phases the clock may legitimately hold (two only after a re-set to the second
    currently shown, where the library documents that it keeps its phase)."""

    def __init__(self, m):
        self.m = m
        self.cands = []          # [(m0, T, prev)]
        self.last_sync = I32MIN
        self.last_read = None

    def limit(self):
        if not self.cands:
            return 65535
        return min(c[2] for c in self.cands) + 65535 - self.m

    def reading(self, c):
        return c[1] + (self.m - c[0]) // 1000

    def set(self, T):
        if T == I32MIN:
            return "sentinel"
        self.last_sync = T
        same = [c for c in self.cands if self.reading(c) == T]
        if same:
            self.cands = same + [(self.m, T, self.m)]
            self.last_read = None
            return "same-second"
        self.cands = [(self.m, T, self.m)]
        self.last_read = None
        return "set"

    def read(self, got):
        """returns None if ok else message"""
        if not self.cands:
            return None if got == I32MIN else "read %d before the clock was ever set (want the invalid sentinel)" % got
        ok = [c for c in self.cands if self.reading(c) == got]
        if not ok:
            return "read %d at m=%d; want %s (set points %r)" % (
                got, self.m, " or ".join(str(self.reading(c)) for c in self.cands), [(c[0], c[1]) for c in self.cands])
        self.cands = [(c[0], c[1], self.m - ((self.m - c[0]) % 1000)) for c in ok]
        if self.last_read is not None and got < self.last_read:
            return "reading decreased from %d to %d without a set" % (self.last_read, got)
        self.last_read = got
        return None


class Machine(RuleBasedStateMachine):
    def __init__(self):
        super().__init__()
        self.ops = []
        self.failed = False
        self.model = None
        STATS["runs"] += 1

    def _fail(self, msg):
        if not self.failed:
            self.failed = True
            FAILS.append({"ops": list(self.ops), "message": msg})

    @initialize(start=st.sampled_from([0, 1, 999, 65536 - 3, 65536 * 7 - 500, 2**32 - 2000, 2**32 - 70000, 2**31 - 1, 123456789]),
                jitter=st.integers(0, 1999), wrap=st.sampled_from([32, 64, 32]), wiring=st.sampled_from([4, 4, 6]))
    def new(self, start, jitter, wrap, wiring):
        # wiring 4: backup clock only; 6: also a reference clock that cannot be set and reports its own time (NTP-like) -
        # loop() is never called here, so the reference must not influence what the clock shows
        m0 = start + jitter
        self.ops.append(["new", m0, wrap, wiring])
        cmd("NEW %d 3600 5 1000 %d %d" % (wiring, m0, wrap))
        self.model = Model(m0)
        self.check_read()

    def check_read(self):
        self.ops.append(["read"])
        r = cmd("GET").split()
        got, last, init = int(r[0]), int(r[1]), int(r[2])
        STATS["reads"] += 1
        msg = self.model.read(got)
        if msg is None and last != self.model.last_sync:
            msg = "getLastSyncTime()=%d want %d" % (last, self.model.last_sync)
        if msg is None and init != (1 if self.model.cands else 0):
            msg = "isInit()=%d" % init
        if msg:
            self._fail(msg)

    @precondition(lambda self: self.model is not None)
    @rule(T=st.one_of(st.integers(-2**31 + 2, 2**31 - 70000), st.sampled_from([0, -1, 1, 1000000])))
    def set(self, T):
        if self.failed:
            return
        self.ops.append(["set", T])
        cmd("SET %d" % T)
        k = self.model.set(T)

    @precondition(lambda self: self.model is not None and bool(self.model.cands))
    @rule(delta=st.integers(-2, 2))
    def set_near_current(self, delta):
        if self.failed:
            return
        # re-set to (about) the second currently shown: the documented keep-phase case and its neighbours
        T = self.model.reading(self.model.cands[0]) + delta
        self.ops.append(["set", T])
        cmd("SET %d" % T)
        if self.model.set(T) == "same-second":
            STATS["reset_same_second"] += 1

    @precondition(lambda self: self.model is not None and bool(self.model.cands))
    @rule(k=st.sampled_from([1, -1, 2, -2, 3]), unit=st.sampled_from([65536, 65536, 32768, 256, 65535, 65537, 2**24, 2**16 * 1000]),
          extra=st.integers(-1, 1))
    def set_power_of_two_away(self, k, unit, extra):
        if self.failed:
            return
        # re-set to a value whose distance from the second currently shown is (close to) a multiple of a power of two
        # (differences that vanish in a narrower integer type)
        T = self.model.reading(self.model.cands[0]) + k * unit + extra
        if not (-2**31 + 2 <= T <= 2**31 - 70000):
            return
        self.ops.append(["set", T])
        cmd("SET %d" % T)
        self.model.set(T)
        STATS["power_of_two_resets"] = STATS.get("power_of_two_resets", 0) + 1

    @precondition(lambda self: self.model is not None)
    @rule()
    def set_sentinel(self):
        if self.failed:
            return
        self.ops.append(["set", I32MIN])
        cmd("SET %d" % I32MIN)
        self.model.set(I32MIN)
        STATS["sentinel_sets"] += 1
        self.check_read()

    @precondition(lambda self: self.model is not None)
    @rule(mode=st.sampled_from(["small", "small", "frac", "frac", "limit", "limit-1", "boundary", "boundary+1", "zero"]),
          x=st.integers(0, 10**6), read=st.booleans())
    def advance(self, mode, x, read):
        if self.failed:
            return
        lim = self.model.limit()
        if lim < 0:
            return
        if mode == "small":
            g = x % 3000
        elif mode == "frac":
            g = x * lim // 10**6
        elif mode == "limit":
            g = lim
        elif mode == "limit-1":
            g = lim - 1
        elif mode == "zero":
            g = 0
        else:
            c = self.model.cands[0] if self.model.cands else (self.model.m, 0, self.model.m)
            rem = (self.model.m - c[0]) % 1000
            g = (1000 - rem) - 1 + (1 if mode == "boundary+1" else 0) + 1000 * (x % 3)
        g = max(0, min(g, lim))
        before = self.model.m
        self.ops.append(["adv", g, 1])
        cmd("M %d" % g)
        self.model.m += g
        STATS["steps"] += 1
        w16 = (before >> 16) != (self.model.m >> 16)
        w32 = (before >> 32) != (self.model.m >> 32)
        if w16:
            STATS["wrap16"] += 1
        if w32:
            STATS["wrap32"] += 1
        if g == lim and lim > 0:
            STATS["max_gap_steps"] += 1
        if g >= 1000 or w16:
            c = self.model.cands[0] if self.model.cands else (0, 0, 0)
            STATS["nontrivial"].add(((before - c[0]) % 1000, g, w16, w32))
        # polls are reads: an advance without a read just lengthens the gap up to the next poll
        self.ops[-1][2] = 1 if read else 0
        if read:
            self.check_read()
        else:
            STATS["unpolled_advances"] = STATS.get("unpolled_advances", 0) + 1

    @precondition(lambda self: self.model is not None)
    @rule(v=st.one_of(st.integers(-10**9, 10**9), st.just(I32MIN)))
    def setup_from_backup(self, v):
        if self.failed:
            return
        self.ops.append(["setup", v])
        cmd("BK %d" % v)
        cmd("SETUP")
        self.model.set(v)
        self.check_read()

    def teardown(self):
        if len(SAMPLES) < 3 and len(self.ops) > 8 and not self.failed:
            SAMPLES.append(self.ops[:16])


def replay_ops(ops):
    """plain replay without Hypothesis -> failure message or None"""
    model = None
    for op in ops:
        if op[0] == "new":
            cmd("NEW %d 3600 5 1000 %d %d" % (op[3] if len(op) > 3 else 4, op[1], op[2]))
            model = Model(op[1])
        elif op[0] == "set":
            cmd("SET %d" % op[1])
            model.set(op[1])
        elif op[0] == "adv":
            if op[1] > model.limit():
                return None          # not a legal schedule any more (gap beyond the documented bound)
            cmd("M %d" % op[1])
            model.m += op[1]
        elif op[0] == "setup":
            cmd("BK %d" % op[1])
            cmd("SETUP")
            model.set(op[1])
        elif op[0] == "read":
            r = cmd("GET").split()
            msg = model.read(int(r[0]))
            if msg is None and int(r[1]) != model.last_sync:
                msg = "getLastSyncTime()=%s want %d" % (r[1], model.last_sync)
            if msg:
                return msg
    return None


def shrink(ops):
    msg = replay_ops(ops)
    if not msg:
        return ops, None
    cur = list(ops)
    changed = True
    while changed:
        changed = False
        for i in range(len(cur) - 1, 0, -1):
            cand = cur[:i] + cur[i + 1:]
            # removing an advance changes later gap legality only towards smaller gaps: still legal
            try:
                m2 = replay_ops(cand)
            except Exception:
                m2 = None
            if m2:
                cur, msg, changed = cand, m2, True
    return cur, msg


def step_job(a):
    return vt.run_exe(a[0], a[1:], timeout=7200) + (a[1:],)


def run(ctx):
    global EXE
    ctx.assumptions = [
        "reference model: read = T + floor((m - m0)/1000) in unbounded integers; a set to the second the clock "
        "currently shows may keep the older sub-second phase (documented early return) - counted as class "
        "reset_same_second; polls are reads (GET); sets and unpolled advances do not count as polls, gaps between polls stay within 65535 - remainder",
        "millis() injected through clockMillis(); the counter is reported modulo 2^32 (or unbounded) to the clock",
    ]
    EXE = vt.build("C13", "clock", ["clock.cpp"], with_db=False)
    if ctx.replay:
        r = json.load(open(ctx.replay))["replay"]
        if "ops" in r:
            msg = replay_ops(r["ops"])
            if msg:
                ctx.violation("schedule", r, "replayed schedule fails: " + msg)
        else:
            rc, out, err = vt.run_exe(EXE, r["args"])
            for line in out.splitlines():
                if line.startswith("MISMATCH"):
                    ctx.violation("step", r, line)
        ctx.evaluations = 1
        return
    thorough = ctx.tier == "thorough"
    rnd = random.Random(ctx.seed)
    jobs = []
    highs = [0, 0xFFFF0000, 0x7FFF0000, 0x12340000]
    special = [1, 999, 1000, 1001, 1999, 2000, 32767, 32768, 64535, 64536] + sorted(rnd.sample(range(1, 64537), 200))
    spec = "list:" + ",".join(str(g) for g in special)
    for i in range(16):
        lo, hi = i * 4096, (i + 1) * 4096
        high = highs[i % 4]
        jobs.append([EXE, "step", lo, hi, high, 32, spec])           # all phases x special gaps
        jobs.append([EXE, "step2", lo, hi, highs[(i + 1) % 4], 32])
    phases = sorted(rnd.sample(range(65536), 64))
    if thorough:
        for i in range(64):
            lo, hi = i * 1024, (i + 1) * 1024
            jobs.append([EXE, "step", lo, hi, highs[i % 4], 32 if i % 2 else 64, "range:1:64536:1"])
        ctx.exhaustive = True
    else:
        for p in phases:
            jobs.append([EXE, "step", p, p + 1, highs[p % 4], 32, "range:1:64536:1"])   # all gaps x 64 phases
    for rc, out, err, args in vt.pmap(step_job, jobs):
        if rc != 0:
            ctx.violation("crash-step", {"args": args}, "clock driver crashed: rc=%s %s" % (rc, (err or "")[-500:]))
        for line in (out or "").splitlines():
            if line.startswith("MISMATCH"):
                ctx.violation("step", {"args": args, "line": line}, line)
            elif line.startswith("STEP"):
                kv = dict(x.split("=") for x in line.split()[1:])
                ctx.evaluations += int(kv["n"])
                ctx.nontrivial += int(kv["nontrivial"])
                ctx.count("single_and_double_steps", int(kv["n"]))
    # first settings of a fresh clock to the smallest valid times (sentinel + 1 .. sentinel + 70), at counter phases whose whole
    # seconds equal that distance, read just before and at the next second
    nfirst = 0
    for k in range(1, 71):
        for base in (0, 65536, 2**32):
            for frac in (1, 500, 999):
                m0 = base + k * 1000 + frac
                T = I32MIN + k
                for gap in (1000 - frac - 1 if frac < 999 else 0, 999, 1000):
                    ops = [["new", m0, 64], ["set", T], ["adv", gap], ["read"]]
                    nfirst += 1
                    msg = replay_ops(ops)
                    if msg:
                        FAILS.append({"ops": ops, "message": msg})
    ctx.evaluations += nfirst
    ctx.count("first_settings_to_smallest_times", nfirst)
    # Hypothesis schedules
    sett = settings(max_examples=3000 if thorough else 400, stateful_step_count=200 if thorough else 60, deadline=None,
                    database=None, report_multiple_bugs=False, phases=[Phase.generate],
                    suppress_health_check=list(HealthCheck), print_blob=False)
    run_state_machine_as_test(hypothesis.seed(ctx.seed)(Machine), settings=sett)
    ctx.evaluations += STATS["reads"]
    ctx.nontrivial += len(STATS["nontrivial"])
    for k in ("runs", "steps", "reads", "reset_same_second", "wrap16", "wrap32", "sentinel_sets", "max_gap_steps", "unpolled_advances", "power_of_two_resets"):
        ctx.count("schedule_" + k, STATS[k])
    for s in SAMPLES:
        ctx.sample(s)
    if not FAILS and (STATS["wrap16"] < 50 or STATS["wrap32"] < 5 or STATS["max_gap_steps"] < 20):
        raise vt.HarnessError("schedule generator degenerate: %r" % {k: STATS[k] for k in ("wrap16", "wrap32", "max_gap_steps")})
    if FAILS:
        best = min(FAILS, key=lambda f: len(f["ops"]))
        small, msg = shrink(best["ops"])
        ctx.violation("schedule", {"ops": small}, "schedule of %d ops (from %d): %s" % (len(small), len(best["ops"]),
                                                                                       msg or best["message"]))
    ctx.extra["schedule_failures_collected"] = len(FAILS)
    ctx.rule = ("(1) in-driver enumeration: every start phase m0 mod 65536 x " +
                ("every gap 1..64536" if thorough else "210 gaps (boundaries + seed-drawn) and every gap 1..64536 x 64 seed-drawn phases") +
                ", counter placed at 0 / 0x7FFF0000 / 0xFFFF0000 (straddling 2^16 and 2^32), plus all phases x 12x10 two-step "
                "schedules at the carried-remainder limit; (2) Hypothesis rule-based schedules (set, set near current second, "
                "set sentinel, setup from backup, advance within 65535 - remainder incl. exactly the limit, read) against the "
                "unbounded-integer model. Non-trivial = steps with gap >= 1000 ms or crossing a 2^16 boundary, distinct by "
                "(phase mod 1000, gap, wrap flags)")


if __name__ == "__main__":
    vt.main("C13", run)
