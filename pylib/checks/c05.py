"""C05 - instant <-> zoned date-time round trip; conversions preserve the instant."""
import json
import os
import random

import sweeplib
import tzoracle
import vt

I32MIN, I32MAX = -2**31, 2**31 - 1
DAY = 86400


def manual_job(a):
    exe, sd, dd, lo, hi, stride = a
    rc, out, err = vt.run_exe(exe, ["manual", sd, dd, lo, hi, stride], timeout=4 * 3600)
    return rc, out, err, a[1:]


def zone_job(a):
    exe, db, zi, zone, odir, targets, mode, seed = a
    try:
        ora = tzoracle.ZoneOracle(os.path.join(odir, zone), sweeplib.T0, sweeplib.T1, zone)
    except vt.HarnessError as e:
        return None, "", str(e), a[1:]
    lines = ["X " + " ".join(str(t) for t in targets), "Z %s %d %d" % (db, zi, mode)]
    pts = set()
    for t, _, _ in ora.transitions():
        for k in range(-2, 3):
            pts.add(t + k)
        mid = (t // DAY) * DAY
        for k in (-1, 0, 1):
            pts.add(mid + k)
            pts.add(mid + DAY + k)
    for y in range(2000, 2050):
        t = tzoracle.t_of(y)
        pts.update((t, t + 1, t + DAY - 1, t + DAY, tzoracle.t_of(y, 12, 31), tzoracle.t_of(y + 1) - 1))
    lo, hi = sweeplib.T0, sweeplib.T1 - 2 * DAY
    for t in sorted(pts):
        if lo <= t < hi:
            lines.append("T %d" % t)
    lines.append("G %d %d %d" % (lo + (seed * 13 + zi) % 7919, hi, 7919))
    rc, out, err = vt.run_exe(exe, ["zones"], stdin="\n".join(lines) + "\n", timeout=3600)
    return rc, out, err, a[1:4] + (len(pts),)


def collect(ctx, res, label):
    for rc, out, err, info in res:
        if rc is None:
            raise vt.HarnessError(err)
        if rc != 0:
            ctx.violation("crash:%s" % label, {"job": list(info)}, "driver crashed (%s %r): rc=%s %s" % (label, info, rc, (err or "")[-500:]))
        for line in (out or "").splitlines():
            if line.startswith("MISMATCH"):
                f = line.split()
                ctx.violation("%s:%s:%s" % (label, f[1], f[2][5:]), {"job": list(info), "line": line}, line)
            elif line.startswith("DONE"):
                kv = dict(x.split("=") for x in line.split()[1:])
                ctx.evaluations += int(kv["n"])
                ctx.nontrivial += int(kv["nontrivial"])
                ctx.count(label + "_checks", int(kv["n"]))


def run(ctx):
    ctx.assumptions = [
        "valid epoch seconds: not the sentinel, at least one day (plus the largest offset used) away from the int32 limits "
        "(README), and inside [2000-01-01, 2049-12-30) for database zones; Unix variants only where e + 946684800 fits in int32",
        "relations are identities on the instant; the zone functions themselves are tied to zic by C01/C02",
    ]
    exe = vt.build("C05", "c05", ["c05.cpp"])
    if ctx.replay:
        r = json.load(open(ctx.replay))["replay"]
        print("replay: re-run the job", r["job"])
    thorough = ctx.tier == "thorough"
    rnd = random.Random(ctx.seed)
    # ---- manual zones ----
    stds = [0, 1, -1, 59, -59, 60, -60, 330, -330, 570, -570, 765, -765, 840, -840, 960, -960, 345, -210, 525, 13, -13, 30, -30,
            600, -600, 720, -720, 45, -45, 899, -899, 480]
    jobs = []
    margin = DAY + 60 * 1100
    lo, hi = I32MIN + margin, I32MAX - margin
    for i, sd in enumerate(stds):
        dd = [0, 60, -60, 30, 120][i % 5]
        if abs(sd + dd) > 1080:
            dd = 0
        if thorough and i < 2:
            step = (hi - lo) // 16
            for k in range(16):
                jobs.append((exe, sd, dd, lo + k * step, lo + (k + 1) * step, 1))
        else:
            stride = 61 if thorough else 4099
            jobs.append((exe, sd, dd, lo + (ctx.seed * 31 + i) % stride, hi, stride))
        for k in range(-3, 4):
            phase = (k - 60 * (sd + dd)) % DAY
            jobs.append((exe, sd, dd, ((lo // DAY) + 1) * DAY + phase, hi, DAY))
            jobs.append((exe, sd, dd, ((lo // DAY) + 1) * DAY + k % DAY, hi, DAY))
    collect(ctx, vt.pmap(manual_job, jobs), "manual")
    ctx.count("manual_offset_pairs", len(stds))
    # ---- database zones ----
    zjobs = []
    for db, dbdir in (("x", "zonedbx"), ("b", "zonedb")):
        sw = sweeplib.build_sweep("C05", "sweep_list")
        zones = sweeplib.list_zones(sw, db)
        src, _, _ = tzoracle.reconstruct_source(dbdir)
        odir = sweeplib.scratch_dir("C05", "zic_" + db)
        ok, err = tzoracle.zic_compile(src, odir)
        if not ok:
            raise vt.HarnessError("zic rejected the reconstructed source")
        nx = len(sweeplib.list_zones(sw, "x"))
        for zi, z in enumerate(zones):
            targets = rnd.sample(range(nx), 4)
            modes = [0, 1] if db == "x" else [0, 1, 2]
            for mode in (modes if thorough else [modes[(zi + ctx.seed) % len(modes)]]):
                zjobs.append((exe, db, zi, z, odir, targets, mode, ctx.seed))
    collect(ctx, vt.pmap(zone_job, zjobs), "zones")
    ctx.count("zone_jobs", len(zjobs))
    ctx.sample({"manual_zone": [330, 0], "relation": "forEpochSeconds(e,tz).toEpochSeconds() == e; toUnixSeconds()-toEpochSeconds() == 946684800"})
    ctx.sample({"zone": "every zone x transitions +-2 s x convertToTimeZone(4 seed-drawn extended zones + manual + managed)"})
    ctx.exhaustive = False
    ctx.rule = ("manual zones: 33 (std,dst) offset pairs x epoch seconds at " +
                ("stride 1 (2 pairs: the full 2^32 sweep) / stride 61 (31 pairs)" if thorough else "stride 4099 (seed phase)") +
                " plus every UTC and local day boundary +-3 s; database zones: every zone of both registries (direct and "
                "manager-created, cache 1..3) x every oracle transition +-2 s, the surrounding UTC midnights, year ends and a "
                "7919 s grid; for each instant: round trip, Unix variants, convertToTimeZone to 6 targets, convertToTimeOffset to "
                "12 offsets, compareTo on equal and consecutive instants across zones. Non-trivial = conversions between different "
                "zones and negative epoch values")


if __name__ == "__main__":
    vt.main("C05", run)
