"""C19 - reference-data generators bracket every library transition and render losslessly."""
import bisect
import datetime as dtm
import json
import os
import random

import hypothesis
from hypothesis import given, settings, strategies as st, Phase, HealthCheck

import vt

UNIX = 946684800
UTC = dtm.timezone.utc


# ---------------------------------------------------------------------------
# the libraries' own transition tables (the oracle is NOT the sampling loop)
# ---------------------------------------------------------------------------

def table(lib, zone):
    """-> (tz, [(unix_t, (utcoff_before, dst_before), (utcoff_after, dst_after))]) or None"""
    if lib == "pytz":
        import pytz
        tz = pytz.timezone(zone)
        tt = getattr(tz, "_utc_transition_times", None)
        if not tt:
            return tz, []
        info = tz._transition_info
        out = []
        for i in range(1, len(tt)):
            try:
                t = int((tt[i] - dtm.datetime(1970, 1, 1)).total_seconds())
            except OverflowError:
                continue
            a, b = info[i - 1], info[i]
            out.append((t, (int(a[0].total_seconds()), int(a[1].total_seconds())), (int(b[0].total_seconds()), int(b[1].total_seconds()))))
        return tz, out
    from dateutil.tz import gettz
    tz = gettz(zone)
    if tz is None or not hasattr(tz, "_trans_list_utc"):
        return tz, []
    out = []
    prev = tz._ttinfo_before
    for t, ti in zip(tz._trans_list_utc, tz._trans_idx):
        if prev is not None:
            out.append((int(t), (int(prev.offset), int(prev.dstoffset.total_seconds())), (int(ti.offset), int(ti.dstoffset.total_seconds()))))
        prev = ti
    return tz, out


def all_zones(lib):
    if lib == "pytz":
        import pytz
        return sorted(pytz.all_timezones)
    import pytz
    from dateutil.tz import gettz
    return [z for z in sorted(pytz.common_timezones) if gettz(z) is not None]


def run_case(case):
    """case: dict(lib, zone, start, until, interval, detect) -> dict(problems, stats, items (optional))"""
    lib, zone, start, until, interval, detect = case["lib"], case["zone"], case["start"], case["until"], case["interval"], case["detect"]
    import logging
    logging.disable(logging.CRITICAL)
    if lib == "pytz":
        from compare_pytz.tdgenerator import TestDataGenerator
    else:
        from compare_dateutil.tdgenerator import TestDataGenerator
    res = {"case": case, "problems": [], "n_items": 0, "qualifying": [], "late": 0}
    tz, tab = table(lib, zone)
    if tz is None:
        return res
    try:
        g = TestDataGenerator(start, until, interval, detect)
        g.create_test_data([zone])
        items = g.test_data.get(zone, [])
    except BaseException as e:
        res["problems"].append(("generator-exception", "%s: %s" % (type(e).__name__, str(e)[:200])))
        return res
    res["n_items"] = len(items)
    epochs = [it["epoch"] for it in items]
    if epochs != sorted(epochs) or len(set(epochs)) != len(epochs):
        res["problems"].append(("order", "items are not strictly sorted by epoch seconds"))
    by_epoch = {it["epoch"]: it for it in items}
    # every item equals what the library reports at its epoch
    for it in items:
        d = dtm.datetime.fromtimestamp(it["epoch"] + UNIX, UTC).astimezone(tz)
        want = (d.year, d.month, d.day, d.hour, d.minute, d.second, int(d.utcoffset().total_seconds()), int(d.dst().total_seconds()), d.tzname())
        got = (it["y"], it["M"], it["d"], it["h"], it["m"], it["s"], it["total_offset"], it["dst_offset"], it["abbrev"])
        if got != want:
            res["problems"].append(("item-fields", "item at epoch %d is %r, the library says %r" % (it["epoch"], got, want)))
            break
    # every qualifying table transition is bracketed by an adjacent-minute pair
    lo = int((dtm.datetime(start, 1, 1) - dtm.datetime(1970, 1, 1)).total_seconds())
    hi = int((dtm.datetime(until, 1, 1) - dtm.datetime(1970, 1, 1)).total_seconds())
    # dateutil's datetime API and its own table disagree around transitions of zones that use negative DST offsets (its
    # ambiguity resolution assumes dst > 0), so 'the change the library exhibits' is not well defined there: such zones
    # are excluded from the bracketing clause and counted (the item-by-item and sample clauses still apply)
    if lib == "dateutil" and any(b[1] < 0 or a[1] < 0 for _, b, a in tab):
        res["excluded_negative_dst_zone"] = True
        tab = []
    for t, before, after in tab:
        if not (lo < t < hi):
            continue
        off_change = before[0] != after[0]
        dst_change = before[1] != after[1]
        if not off_change and not (detect and dst_change):
            continue
        if lib == "dateutil" and t == tab[-1][0]:
            # after the last entry of its table dateutil falls back to the zone's standard time, so the API does not
            # exhibit the last table entry as a change -> excluded and counted
            res["dateutil_last_entry_excluded"] = res.get("dateutil_last_entry_excluded", 0) + 1
            continue
        if lib == "dateutil" and not off_change:
            # DST-only changes: dateutil's dst() and its table disagree about the instant (the generator's own
            # documentation says so); not a change 'the library exhibits' consistently -> excluded and counted
            res["dateutil_dst_only_excluded"] = res.get("dateutil_dst_only_excluded", 0) + 1
            continue
        if lib == "dateutil":
            # a fourth class of the same kind: dateutil's UTC->local conversion shows the change at another instant than its
            # own table (and than its local->UTC conversion), e.g. America/Indiana/Winamac 2007-11-04: table 06:00Z, astimezone()
            # 05:00Z, timestamp() of that result 06:00Z. No generator built on this API can bracket such a change at adjacent
            # minutes -> excluded and counted
            da = dtm.datetime.fromtimestamp(t - 60, UTC).astimezone(tz)
            db_ = dtm.datetime.fromtimestamp(t, UTC).astimezone(tz)
            if int(da.utcoffset().total_seconds()) != before[0] or int(db_.utcoffset().total_seconds()) != after[0] \
                    or int(db_.timestamp()) != t or int(da.timestamp()) != t - 60:
                res["dateutil_api_table_mismatch_excluded"] = res.get("dateutil_api_table_mismatch_excluded", 0) + 1
                continue
        # two changes closer together than one sampling interval can cancel between two samples: such a change is not one a
        # sampling generator can be asked to exhibit -> excluded and counted (does not occur for intervals <= 22 h)
        if any(t2 != t and abs(t2 - t) <= interval * 3600 for t2, _, _ in tab):
            res["closer_than_interval_excluded"] = res.get("closer_than_interval_excluded", 0) + 1
            continue
        res["qualifying"].append(t)
        if hi - t <= interval * 3600:
            res["late"] += 1
        e = t - UNIX
        # right item: smallest item epoch >= e ; left: 60 s before it
        i = bisect.bisect_left(epochs, e)
        ok = False
        for j in (i, i + 1):
            if j < len(epochs):
                r = epochs[j]
                l = r - 60
                if l < e <= r and l in by_epoch:
                    tl, tr = by_epoch[l]["type"], by_epoch[r]["type"]
                    want = ("A", "B") if off_change else ("a", "b")
                    if (tl, tr) == want:
                        ok = True
                        break
                    res["problems"].append(("pair-type", "transition at %s bracketed by items typed %s/%s, want %s/%s" %
                                            (dtm.datetime.utcfromtimestamp(t), tl, tr, want[0], want[1])))
                    ok = True
                    break
        if not ok:
            res["problems"].append(("unbracketed", "library transition at %sZ (utcoffset %d -> %d, dst %d -> %d) has no pair of items at adjacent minutes around it" %
                                    (dtm.datetime.utcfromtimestamp(t).isoformat(), before[0], after[0], before[1], after[1])))
            break
    # monthly and year-end samples
    have = set((it["y"], it["M"], it["d"]) for it in items if it["h"] < 3)
    for y in range(start, until):
        for m in range(1, 13):
            if (y, m, 1) not in have and (y, m, 2) not in have:
                res["problems"].append(("monthly-sample", "no item at the local start of %04d-%02d" % (y, m)))
                break
        if not any(it["y"] == y and it["M"] == 12 and it["d"] == 31 and it["h"] == 23 and it["m"] == 59 for it in items):
            # the wall time may not exist in the zone (skipped day): accept an item within the last two days of the year
            if not any((it["y"], it["M"]) == (y, 12) and it["d"] >= 30 for it in items) and not any((it["y"], it["M"], it["d"]) == (y + 1, 1, 1) for it in items):
                res["problems"].append(("year-end-sample", "no item at %04d-12-31 23:59 local" % y))
    if case.get("keep"):
        res["items"] = items
        res["validation"] = g.get_validation_data()
    return res


def run_zst_case(case):
    """validator.zstdgenerator: transitions come from ZoneSpecifier on tools/zonedbpy, fields from pytz."""
    import logging
    logging.disable(logging.CRITICAL)
    import pytz
    from validator.zstdgenerator import TestDataGenerator
    from zonedb.zone_specifier import ZoneSpecifier
    from zonedbpy import zone_infos, zone_policies
    zone, start, until = case["zone"], case["start"], case["until"]
    res = {"case": case, "problems": [], "n_items": 0, "qualifying": [], "late": 0}
    info = zone_infos.ZONE_INFO_MAP[zone]
    try:
        g = TestDataGenerator({zone: info}, zone_policies.ZONE_POLICY_MAP, start, until)
        data, n = g.create_test_data()
    except BaseException as e:
        res["problems"].append(("generator-exception", "%s: %s" % (type(e).__name__, str(e)[:200])))
        return res
    items = data.get(zone, [])
    res["n_items"] = len(items)
    tz = pytz.timezone(zone)
    epochs = [it.epoch for it in items]
    if epochs != sorted(epochs) or len(set(epochs)) != len(epochs):
        res["problems"].append(("order", "items are not strictly sorted by epoch seconds"))
    by_epoch = {it.epoch: it for it in items}
    for it in items:
        d = dtm.datetime.fromtimestamp(it.epoch + UNIX, UTC).astimezone(tz)
        want = (d.year, d.month, d.day, d.hour, d.minute, d.second, int(d.utcoffset().total_seconds()), int(d.dst().total_seconds()))
        got = (it.y, it.M, it.d, it.h, it.m, it.s, it.total_offset, it.dst_offset)
        if got != want:
            res["problems"].append(("item-fields", "item at epoch %d is %r, pytz says %r" % (it.epoch, got, want)))
            break
    zs = ZoneSpecifier(info)
    for y in range(start, until):
        zs.init_for_year(y)
        for tr in zs.transitions:
            if tr.startDateTime.y != y:
                continue
            e = tr.startEpochSecond
            res["qualifying"].append(e)
            a, b = by_epoch.get(e - 1), by_epoch.get(e)
            if a is None or b is None or a.type != "A" or b.type != "B":
                res["problems"].append(("unbracketed", "ZoneSpecifier transition at epoch %d of %d has no A/B item pair at the adjacent seconds" % (e, y)))
                return res
        have = set((it.y, it.M, it.d) for it in items if it.h < 3)
        for m in range(1, 13):
            if (y, m, 1) not in have and (y, m, 2) not in have:
                res["problems"].append(("monthly-sample", "no item at the local start of %04d-%02d" % (y, m)))
                return res
        if not any(it.y == y and it.M == 12 and it.d == 31 and it.h == 23 for it in items) and \
                not any((it.y, it.M, it.d) == (y + 1, 1, 1) for it in items):
            res["problems"].append(("year-end-sample", "no item at %04d-12-31 23:00 local" % y))
    return res


def _zst_year_end_transitions(zones):
    import logging
    logging.disable(logging.CRITICAL)
    from zonedb.zone_specifier import ZoneSpecifier
    from zonedbpy import zone_infos
    out = []
    for z in zones:
        zs = ZoneSpecifier(zone_infos.ZONE_INFO_MAP[z])
        for y in range(2000, 2037):
            try:
                zs.init_for_year(y)
            except BaseException:
                continue
            for tr in zs.transitions:
                for dtp in (tr.startDateTime, tr.transitionTime):
                    if (dtp.M == 12 and dtp.d >= 30 and dtp.y == y) or (dtp.M == 1 and dtp.d <= 2 and dtp.y == y + 1):
                        if (z, y) not in out:
                            out.append((z, y))
    return out


def run_multi_case(case):
    """A zone list with names the library does not know in between: every known zone gets exactly the items it gets when
    generated alone, the unknown names get none (the generators document that they skip such names)."""
    import logging
    logging.disable(logging.CRITICAL)
    lib, zones, start, until = case["lib"], case["zones"], case["start"], case["until"]
    if lib == "pytz":
        from compare_pytz.tdgenerator import TestDataGenerator
    else:
        from compare_dateutil.tdgenerator import TestDataGenerator
    res = {"case": case, "problems": [], "n_items": 0}
    try:
        g = TestDataGenerator(start, until, 22, True)
        g.create_test_data(zones)
        together = g.test_data
        for z in zones:
            g1 = TestDataGenerator(start, until, 22, True)
            g1.create_test_data([z])
            alone = g1.test_data.get(z)
            res["n_items"] += len(alone or [])
            if together.get(z) != alone:
                res["problems"].append(("zone-list", "zone %r generated inside the list %r has %s items, alone it has %s (first item %r vs %r)" % (
                    z, zones, len(together.get(z) or []), len(alone or []), (together.get(z) or [None])[0], (alone or [None])[0])))
                break
        extra = sorted(set(together) - set(zones))
        if extra:
            res["problems"].append(("zone-list", "test data has zones that were not asked for: %r" % extra))
    except BaseException as e:
        res["problems"].append(("generator-exception", "%s: %s" % (type(e).__name__, str(e)[:200])))
    return res


def run_case_list(cs):
    """several cases one after the other in the same process"""
    return [run_case(c) for c in cs]


def construct_cases(lib, rnd, n):
    """cases built from the library's own table: a transition close to the end of a year becomes the last thing in range"""
    out = []
    zones = all_zones(lib)
    cand = []
    for z in zones:
        try:
            tz, tab = table(lib, z)
        except Exception:
            continue
        for t, b, a in tab:
            d = dtm.datetime.utcfromtimestamp(t)
            if 2000 <= d.year <= 2036 and b[0] != a[0]:
                left = (dtm.datetime(d.year + 1, 1, 1) - d).total_seconds() / 3600
                cand.append((left, z, d.year))
    cand.sort()
    near = [c for c in cand if c[0] <= 48]
    for k in range(n):
        c = near[k % len(near)] if near and k < 2 * len(near) else cand[rnd.randrange(len(cand))]
        out.append(dict(lib=lib, zone=c[1], start=rnd.randrange(2000, c[2] + 1), until=c[2] + 1, interval=rnd.choice([22, 22, 12, 7, 17, 3, 36, 48]),
                        detect=rnd.random() < 0.5, constructed=True))
    return out


def run(ctx):
    ctx.assumptions = [
        "oracle: the libraries' own transition tables (pytz _utc_transition_times/_transition_info, dateutil _trans_list_utc/_trans_idx) "
        "and a fresh evaluation of every item's epoch through the library, not the generator's sampling loop",
        "dateutil zones with negative DST offsets are excluded from the bracketing clause (library API and table disagree there); "
        "sampling intervals 1..72 h (22 is the shipped default); a change with another change closer than one sampling interval is excluded and counted",
        "rendering: validation_data.cpp compiled against ValidationDataType.h and read back by a generated reader",
    ]
    import logging
    logging.disable(logging.CRITICAL)
    thorough = ctx.tier == "thorough"
    rnd = random.Random(ctx.seed)
    if ctx.replay:
        r = json.load(open(ctx.replay))["replay"]
        if "multi_case" in r:
            res = run_multi_case(r["multi_case"])
            for kind, msg in res["problems"]:
                ctx.violation("%s:%s" % (r["multi_case"]["lib"], kind), {"multi_case": r["multi_case"]}, msg)
            ctx.evaluations = 1
            return
        res = run_case(r["case"])
        for kind, msg in res["problems"]:
            ctx.violation("%s:%s" % (r["case"]["lib"], kind), {"case": r["case"]}, msg)
        ctx.evaluations = 1
        return
    cases = []
    for lib in ("pytz", "dateutil"):
        cases += construct_cases(lib, rnd, 80 if thorough else 40)
    zones = {lib: all_zones(lib) for lib in ("pytz", "dateutil")}
    drawn = []

    @hypothesis.seed(ctx.seed)
    @settings(max_examples=400 if thorough else 100, deadline=None, database=None, phases=[Phase.generate], suppress_health_check=list(HealthCheck))
    @given(st.sampled_from(["pytz", "dateutil"]), st.integers(0, 10**6), st.integers(2000, 2035), st.integers(1, 12),
           st.sampled_from([22, 22, 22, 1, 5, 11, 13, 20, 35, 48, 72]), st.booleans())
    def draw(lib, zi, start, span, interval, detect):
        drawn.append(dict(lib=lib, zone=zones[lib][zi % len(zones[lib])], start=start, until=min(2038, start + span), interval=interval,
                          detect=detect, constructed=False))

    draw()
    cases += drawn
    if thorough:
        for lib in ("pytz", "dateutil"):
            for z in zones[lib]:
                cases.append(dict(lib=lib, zone=z, start=2000, until=2038, interval=22, detect=True, constructed=False))
    keep_idx = set(rnd.sample(range(len(cases)), 10))
    for i in keep_idx:
        cases[i]["keep"] = True
    # the same (zone, range, interval) generated twice in ONE process with different settings of detect_dst (and once more
    # with the first setting): a generator object must not inherit anything from the ones created before it
    pair_cases = []
    dst_only = {}
    for lib in ("pytz", "dateutil"):
        zl = []
        for z in zones[lib]:
            try:
                _, tab = table(lib, z)
            except Exception:
                continue
            ys = [dtm.datetime.utcfromtimestamp(t).year for t, b, a in tab if b[0] == a[0] and b[1] != a[1] and 946684800 < t < 2114380800]
            if ys:
                zl.append((z, ys[0]))
        dst_only[lib] = zl
    for k in range(30 if thorough else 10):
        lib = "pytz" if k % 3 else "dateutil"
        if not dst_only[lib]:
            continue
        z, y = dst_only[lib][rnd.randrange(len(dst_only[lib]))]
        first = bool(k % 2)
        base = dict(lib=lib, zone=z, start=max(2000, y - 1), until=min(2038, y + 2), interval=22, constructed=False)
        pair_cases.append([dict(base, detect=first), dict(base, detect=not first), dict(base, detect=first)])
    ctx.count("same_process_case_triples", len(pair_cases))
    results = vt.pmap(run_case, cases) + [r_ for tr in vt.pmap(run_case_list, pair_cases) for r_ in tr]
    nt = set()
    late = 0
    rendered = []
    for res in results:
        c = res["case"]
        ctx.evaluations += res["n_items"]
        for t in res["qualifying"]:
            nt.add((c["lib"], c["zone"], t))
        late += 1 if res["late"] else 0
        if res.get("dateutil_last_entry_excluded"):
            ctx.count("dateutil_last_table_entry_excluded", res["dateutil_last_entry_excluded"])
        if res.get("dateutil_api_table_mismatch_excluded"):
            ctx.count("dateutil_api_vs_table_instant_mismatch_excluded", res["dateutil_api_table_mismatch_excluded"])
        if res.get("closer_than_interval_excluded"):
            ctx.count("changes_closer_than_one_interval_excluded", res["closer_than_interval_excluded"])
        if res.get("dateutil_dst_only_excluded"):
            ctx.count("dateutil_dst_only_transitions_excluded", res["dateutil_dst_only_excluded"])
        if res.get("excluded_negative_dst_zone"):
            ctx.count("dateutil_cases_excluded_negative_dst_zone")
        ctx.count("cases_" + c["lib"])
        if c.get("constructed"):
            ctx.count("cases_constructed_from_table")
        for kind, msg in res["problems"]:
            ctx.violation("%s:%s" % (c["lib"], kind), {"case": {k: v for k, v in c.items() if k != "keep"}},
                          "%s %s [%d,%d) interval %d h detect_dst=%s: %s" % (c["lib"], c["zone"], c["start"], c["until"], c["interval"], c["detect"], msg))
        if "items" in res and res["items"]:
            rendered.append(res)
    ctx.count("cases_with_transition_in_last_interval", late)
    # zone lists with unknown names in between
    mcases = []
    for lib in ("pytz", "dateutil"):
        zs_ = all_zones(lib)
        for k in range(6 if thorough else 3):
            zl = rnd.sample(zs_, 4)
            zl.insert(1 + k % 3, "Mars/Olympus_Mons")
            if k % 2:
                zl.insert(0, "Nowhere/At_All")
            y0 = rnd.randrange(2000, 2035)
            mcases.append(dict(lib=lib, zones=zl, start=y0, until=y0 + 2))
    for res in vt.pmap(run_multi_case, mcases):
        c = res["case"]
        ctx.evaluations += res["n_items"]
        ctx.count("zone_list_cases_with_unknown_names")
        nt.add((c["lib"], "zone-list", tuple(c["zones"])))
        for kind, msg in res["problems"]:
            ctx.violation("%s:%s" % (c["lib"], kind), {"multi_case": c}, "%s [%d,%d): %s" % (c["lib"], c["start"], c["until"], msg))
    # ---- validator.zstdgenerator on the checked-in zonedbpy ----
    import pytz
    sys_path_tools = os.path.join(vt.REPO, "tools")
    import sys
    if sys_path_tools not in sys.path:
        sys.path.insert(0, sys_path_tools)
    from zonedbpy import zone_infos as _zi
    zst_zones = sorted(z for z in _zi.ZONE_INFO_MAP if z in pytz.all_timezones_set)
    zsel = zst_zones if thorough else rnd.sample(zst_zones, 40)
    zcases = [dict(lib="zst", zone=z, start=2000 + (i % 5), until=2038 if thorough else 2012 + (i % 20)) for i, z in enumerate(zsel)]
    # constructed: zones whose ZoneSpecifier has a transition within two days of a New Year -> ranges ending / starting there
    for z, y in [p for part in vt.pmap(_zst_year_end_transitions, [zst_zones[i::16] for i in range(16)]) for p in part]:
        zcases.append(dict(lib="zst", zone=z, start=max(2000, y - 3), until=y + 1, constructed=True))
        zcases.append(dict(lib="zst", zone=z, start=y + 1, until=min(2038, y + 4), constructed=True))
    for res in vt.pmap(run_zst_case, zcases):
        c = res["case"]
        ctx.evaluations += res["n_items"]
        ctx.count("cases_zstdgenerator")
        for t in res["qualifying"]:
            nt.add(("zst", c["zone"], t))
        for kind, msg in res["problems"]:
            ctx.violation("zst:%s" % kind, {"case": c}, "zstdgenerator %s [%d,%d): %s" % (c["zone"], c["start"], c["until"], msg))
    if late < 4:
        raise vt.HarnessError("too few cases with a transition in the last sampling interval: %d of %d" % (late, len(cases)))
    # ---- rendering ----
    from validation.arvalgenerator import ArduinoValidationGenerator
    work = vt.build_dir("C19")
    for k, res in enumerate(rendered):
        c = res["case"]
        out = os.path.join(work, "render%d" % k)
        os.makedirs(out, exist_ok=True)
        vd = res["validation"]
        try:
            g = ArduinoValidationGenerator(invocation="c19", tz_version="x", scope="extended", db_namespace="zonedbx", validation_data=vd, blacklist={})
            g.generate_files(out)
        except BaseException as e:
            ctx.violation("render-exception", {"case": c, "error": repr(e)}, "ArduinoValidationGenerator raised %r" % e)
            continue
        from tzdb.transformer import normalize_name
        sym = "kValidationData" + normalize_name(c["zone"])
        reader = os.path.join(out, "reader.cpp")
        with open(reader, "w") as f:
            f.write('#include <stdio.h>\n#include <stdint.h>\n#include <ace_time/common/common.h>\n#include <ace_time/testing/ValidationDataType.h>\n'
                    '#include "validation_data.h"\nusing namespace ace_time;\nint main() {\n  const testing::ValidationData& d = zonedbx::%s;\n'
                    '  for (uint16_t i = 0; i < d.numItems; i++) { const testing::ValidationItem& it = d.items[i];\n'
                    '    printf("%%d %%d %%d %%d %%d %%d %%d %%d %%d %%s %%c\\n", (int) it.epochSeconds, (int) it.timeOffsetMinutes, (int) it.deltaOffsetMinutes, (int) it.year,\n'
                    '      (int) it.month, (int) it.day, (int) it.hour, (int) it.minute, (int) it.second, it.abbrev ? it.abbrev : "(null)", it.type); }\n  return 0; }\n' % sym)
        exe = vt.build("C19", "reader%d" % k, [reader], with_db=False, lib_sources=[], extra=["-I" + out],
                       extra_sources=[os.path.join(out, "validation_data.cpp")], opt="-O0")
        rc, o, err = vt.run_exe(exe, [])
        if rc != 0:
            ctx.violation("render-crash", {"case": c}, "reader crashed: %s" % (err or "")[-300:])
            continue
        lines = o.splitlines()
        items = res["items"]
        ctx.evaluations += len(items)
        if len(lines) != len(items):
            ctx.violation("render-count", {"case": c}, "%s: %d items rendered, %d collected" % (c["zone"], len(lines), len(items)))
            continue
        for line, it in zip(lines, items):
            f = line.split()
            whole = it["total_offset"] % 60 == 0 and it["dst_offset"] % 60 == 0
            want = [it["epoch"], it["total_offset"] // 60 if whole else None, it["dst_offset"] // 60 if whole else None, it["y"], it["M"], it["d"], it["h"],
                    it["m"], it["s"], it["abbrev"] or "(null)", it["type"]]
            got = [int(x) for x in f[:9]] + [f[9], f[10]]
            if not whole:
                want[1], want[2] = got[1], got[2]
            if got != want:
                ctx.violation("render-item", {"case": c, "item": it, "rendered": line},
                              "%s %s: rendered item %r differs from the collected item %r" % (c["lib"], c["zone"], line, it))
                break
        if it["dst_offset"] < 0:
            nt.add(("render-negative-dst", c["zone"]))
    ctx.count("rendered_data_sets", len(rendered))
    ctx.nontrivial = len(nt)
    for res in results[:3]:
        c = res["case"]
        ctx.sample({"lib": c["lib"], "zone": c["zone"], "range": [c["start"], c["until"]], "interval_h": c["interval"], "detect_dst": c["detect"],
                    "items": res["n_items"], "qualifying_table_transitions": len(res["qualifying"])})
    ctx.rule = ("cases (library, zone, [start, until), sampling interval, detect_dst): constructed from the library's own table so that a "
                "transition lies near the end of the range (~1/3), Hypothesis-drawn over all zones known to pytz / dateutil (thorough: "
                "every zone for 2000..2037); checks: items sorted and unique, every item equals a fresh library evaluation, every "
                "qualifying table transition is bracketed by an adjacent-minute A/B (a/b) pair, monthly and year-end samples present; 10 "
                "data sets rendered to C++ and read back. Non-trivial = distinct (library, zone, transition instant) that had to be bracketed")


if __name__ == "__main__":
    vt.main("C19", run)
