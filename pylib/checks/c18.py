"""C18 - rule day resolution (lastSun, Sun>=8, Fri<=1) agrees in C++, Python and the calendar."""
import datetime as dtm
import io
import json
import logging
import contextlib

import hypothesis
from hypothesis import given, settings, strategies as st, Phase, HealthCheck

import vt

DOW = {1: "Mon", 2: "Tue", 3: "Wed", 4: "Thu", 5: "Fri", 6: "Sat", 7: "Sun"}


def on_string(dow, dom):
    if dow == 0:
        return str(dom)
    if dom == 0:
        return "last" + DOW[dow]
    if dom > 0:
        return "%s>=%d" % (DOW[dow], dom)
    return "%s<=%d" % (DOW[dow], -dom)


def oracle(y, m, dow, dom):
    """calendar answer by enumeration -> (year, month, day)"""
    if dow == 0:
        return (y, m, dom)
    if dom == 0:
        d = dtm.date(y + (m == 12), m % 12 + 1, 1) - dtm.timedelta(days=1)
        while d.isoweekday() != dow:
            d -= dtm.timedelta(days=1)
        return (d.year, d.month, d.day)
    if dom > 0:
        d = dtm.date(y, m, dom)
        while d.isoweekday() != dow:
            d += dtm.timedelta(days=1)
        return (d.year, d.month, d.day)
    d = dtm.date(y, m, -dom)
    while d.isoweekday() != dow:
        d -= dtm.timedelta(days=1)
    return (d.year, d.month, d.day)


def admitted_rules():
    """Run the real transformer step on one synthetic policy per expression -> set of admitted (m, dow, dom)."""
    from tzdb import transformer as T
    rules_map = {}
    keys = {}
    for m in range(1, 13):
        for dow in range(0, 8):
            for dom in range(-31, 32):
                if dow == 0 and dom < 1:
                    continue
                name = "P_%d_%d_%d" % (m, dow, dom)
                rules_map[name] = [{"onDay": on_string(dow, dom), "inMonth": m}]
                keys[name] = (m, dow, dom)
                # the same expression as the FIRST rule of a policy whose last rule is harmless (a plain day in June)
                name2 = "Q_%d_%d_%d" % (m, dow, dom)
                rules_map[name2] = [{"onDay": on_string(dow, dom), "inMonth": m}, {"onDay": "15", "inMonth": 6}]
                keys[name2] = (m, dow, dom)
    tr = T.Transformer({}, {}, {}, "extended", 2000, 2050, 60, 900, True)
    logging.disable(logging.CRITICAL)
    try:
        with contextlib.redirect_stdout(io.StringIO()), contextlib.redirect_stderr(io.StringIO()):
            res = tr._create_rules_with_on_day_expansion(rules_map)
    finally:
        logging.disable(logging.NOTSET)
    adm = set()
    parsed_ok = True
    alone = set(keys[n_] for n_ in res if n_.startswith("P_"))
    first_of_two = set(keys[n_] for n_ in res if n_.startswith("Q_"))
    if alone != first_of_two:
        # admission of an expression must not depend on the other rules of its policy; report through parsed_ok
        d_ = sorted(alone ^ first_of_two)[0]
        parsed_ok = ("admission of %r depends on the position of the rule in its policy" % on_string(d_[1], d_[2]) + " (month %d)" % d_[0],
                     {"alone": d_ in alone, "first_of_two": d_ in first_of_two})
    for name, rules in res.items():
        k = keys[name]
        adm.add(k)
        if (rules[0].get("onDayOfWeek"), rules[0].get("onDayOfMonth")) != (k[1], k[2]):
            parsed_ok = (name, rules[0])
    return adm, tr.all_removed_policies, {v: k for k, v in keys.items()}, parsed_ok


def year_job(a):
    exe, y0, y1, adm = a
    from tzdb import transformer as T
    rc, out, err = vt.run_exe(exe, ["days", y0, y1], timeout=3600)
    res = {"n": 0, "admitted": 0, "spill_month": 0, "bad": [], "crash": None}
    if rc != 0:
        res["crash"] = "days %d..%d rc=%s %s" % (y0, y1, rc, (err or "")[-300:])
    first = {}
    for line in (out or "").splitlines():
        if line.startswith("R "):
            # second traversal, other order: must repeat the first answer
            y, m, dow, dom, cm, cd = [int(x) for x in line.split()[1:]]
            res["n"] += 1
            if first.get((y, m, dow, dom)) != (cm, cd) and len(res["bad"]) < 8:
                res["bad"].append(("order-dependent:%d" % m, [y, m, dow, dom],
                                   "'%s' month %d year %d resolved to %r in the ascending traversal and to (%d,%d) when asked after other cases "
                                   "(weekday innermost, descending)" % (on_string(dow, dom), m, y, first.get((y, m, dow, dom)), cm, cd)))
            continue
        y, m, dow, dom, cm, cd = [int(x) for x in line.split()]
        first[(y, m, dow, dom)] = (cm, cd)
        res["n"] += 1
        oy, om, od = oracle(y, m, dow, dom)
        if (m, dow, dom) not in adm:
            continue
        res["admitted"] += 1
        if oy != y:
            if len(res["bad"]) < 8:
                res["bad"].append(("year-spill-admitted:%d:%d" % (m, dom), [y, m, dow, dom],
                                   "'%s' in month %d of %d is admitted by the transformer but the calendar answer %04d-%02d-%02d "
                                   "lies in another year (C++ gives month %d day %d)" % (on_string(dow, dom), m, y, oy, om, od, cm, cd)))
            continue
        if om != m:
            res["spill_month"] += 1
        pm, pd = T.calc_day_of_month(y, m, dow, dom)
        if (cm, cd) != (om, od) or (pm, pd) != (om, od):
            if len(res["bad"]) < 8:
                res["bad"].append(("resolve:%d:%d:%d" % (m, dow, dom), [y, m, dow, dom],
                                   "'%s' month %d year %d: C++ (%d,%d), Python (%d,%d), calendar (%d,%d)" %
                                   (on_string(dow, dom), m, y, cm, cd, pm, pd, om, od)))
    return res


def until_job(a):
    """the zone UNTIL-day path of the transformer, years y0..y1"""
    y0, y1 = a
    from tzdb import transformer as T
    zones = {}
    keys = {}
    for y in range(y0, y1 + 1):
        for m in range(1, 13):
            for dow in range(0, 8):
                for dom in range(-31, 32):
                    if dow == 0 and dom < 1:
                        continue
                    lim = abs(dom)
                    try:
                        if lim:
                            dtm.date(y, m, lim)
                    except ValueError:
                        continue
                    name = "Z/%d_%d_%d_%d" % (y, m, dow, dom)
                    zones[name] = [{"untilDayString": on_string(dow, dom), "untilYear": y, "untilMonth": m}]
                    keys[name] = (y, m, dow, dom)
    tr = T.Transformer({}, {}, {}, "extended", 2000, 2050, 60, 900, True)
    logging.disable(logging.CRITICAL)
    try:
        with contextlib.redirect_stdout(io.StringIO()), contextlib.redirect_stderr(io.StringIO()):
            res = tr._create_zones_with_until_day(zones)
    finally:
        logging.disable(logging.NOTSET)
    bad = []
    n = 0
    for name, k in keys.items():
        n += 1
        oy, om, od = oracle(*k)
        if name in res:
            era = res[name][0]
            if oy != k[0] or (era["untilMonth"], era["untilDay"]) != (om, od):
                if len(bad) < 5:
                    bad.append(("until:%d:%d:%d" % k[1:], list(k), "zone UNTIL '%s' month %d year %d resolved to (%s,%s); calendar %04d-%02d-%02d" %
                                (on_string(k[2], k[3]), k[1], k[0], era["untilMonth"], era["untilDay"], oy, om, od)))
        else:
            if name not in tr.all_removed_zones:
                bad.append(("until-lost:%d:%d:%d" % k[1:], list(k), "zone %s neither kept nor listed as removed" % name))
    return n, bad


def run(ctx):
    ctx.assumptions = ["oracle: the proleptic Gregorian calendar by day-by-day enumeration with datetime.date",
                       "the admitted set is computed by running Transformer._create_rules_with_on_day_expansion itself",
                       "sanitizer clause: C++ calcStartDayOfMonth on admitted cases under ASan+UBSan"]
    exe = vt.build("C18", "misc", ["misc.cpp"])
    adm, removed, names, parsed_ok = admitted_rules()
    if parsed_ok is not True:
        ctx.violation("parse-roundtrip", {"rule": str(parsed_ok)}, "onDay parsed to different values: %r" % (parsed_ok,))
    if ctx.replay:
        r = json.load(open(ctx.replay))["replay"]
        y, m, dow, dom = r["case"]
        res = year_job((exe, y, y, adm))
        for key, case, msg in res["bad"]:
            if case == r["case"]:
                ctx.violation(key, {"case": case}, msg)
        ctx.evaluations = 1
        return
    thorough = ctx.tier == "thorough"
    jobs = [(exe, y, min(y + 7, 2126), adm) for y in range(1873, 2127, 8)]
    spill = 0
    for res in vt.pmap(year_job, jobs):
        ctx.evaluations += res["n"]
        ctx.count("cases", res["n"])
        ctx.count("admitted_cases", res["admitted"])
        spill += res["spill_month"]
        if res["crash"]:
            ctx.violation("crash", {"what": res["crash"]}, res["crash"])
        for key, case, msg in res["bad"]:
            ctx.violation(key, {"case": case}, msg)
    ctx.count("admitted_cases_spilling_into_a_neighbouring_month", spill)
    ctx.nontrivial += spill
    ctx.count("admitted_expressions", len(adm))
    # zone UNTIL path
    ujobs = [(y, y + 1) for y in range(1873, 2127, 2)] if thorough else [(y, y + 1) for y in range(1990, 2018, 2)]
    for n, bad in vt.pmap(until_job, ujobs):
        ctx.evaluations += n
        ctx.count("until_day_cases", n)
        for key, case, msg in bad:
            ctx.violation(key, {"case": case}, msg)
    # sanitizer run over admitted cases
    exe_san = vt.build("C18", "misc_san", ["misc.cpp"], sanitize=True)
    years = range(1873, 2127) if thorough else list(range(1990, 2018)) + [1873, 1900, 2000, 2100, 2126]
    lines = []
    for y in years:
        for (m, dow, dom) in sorted(adm):
            lim = abs(dom)
            try:
                if lim:
                    dtm.date(y, m, lim)
            except ValueError:
                continue
            lines.append("%d %d %d %d" % (y, m, dow, dom))
    chunks = [lines[i::16] for i in range(16)]
    for crashes, n in vt.pmap(san_job, [(exe_san, c) for c in chunks]):
        ctx.evaluations += n
        ctx.count("sanitized_admitted_cases", n)
        for case, rc, err in crashes:
            f = case.split()
            ctx.violation("sanitizer:month%s:dom%s" % (f[1], f[3]) if case != "?" else "sanitizer:?",
                          {"case": [int(x) for x in f] if case != "?" else None},
                          "calcStartDayOfMonth(%s) on an admitted case: sanitizer report / crash rc=%s\n%s" % (case, rc, err))
    # parser: accepted grammar and near misses
    from tzdb import transformer as T
    for dow in range(1, 8):
        for d in range(1, 32):
            for s, want in ((on_string(dow, d), (dow, d)), (on_string(dow, -d), (dow, -d))):
                ctx.evaluations += 1
                if T._parse_on_day_string(s) != want:
                    ctx.violation("parse:" + s, {"on": s}, "_parse_on_day_string(%r) = %r want %r" % (s, T._parse_on_day_string(s), want))
        if T._parse_on_day_string("last" + DOW[dow]) != (dow, 0):
            ctx.violation("parse:last", {"on": "last" + DOW[dow]}, "lastDow parsed wrongly")
    for d in range(1, 32):
        if T._parse_on_day_string(str(d)) != (0, d):
            ctx.violation("parse:%d" % d, {"on": str(d)}, "day parsed wrongly")
    nm = [0, 0]

    @hypothesis.seed(ctx.seed)
    @settings(max_examples=3000 if thorough else 500, deadline=None, database=None, phases=[Phase.generate],
              suppress_health_check=list(HealthCheck))
    @given(st.one_of(
        st.builds(lambda w, op, d: w + op + d,
                  st.sampled_from(["Sunday", "sun", "SUN", "Su", "Sun ", "", "Sat", "Mon", "last", "lastSun", "Funday"]),
                  st.sampled_from([">", "<", "=", "=>", "=<", "==", " >= ", ">=", "<="]),
                  st.sampled_from(["", "1", "x", "-1", "1.5", " 7"])),
        st.sampled_from(["lastsun", "lastSunday", "last", "Last Sun", "lastSun>=1", "Sun>1", "Sun>=", "Sun<=", ">=5", "<=5"]),
        st.text(alphabet="SunMoFri<>=last0123456789 ", max_size=9)))
    def near_miss(s):
        import re
        nm[0] += 1
        valid = re.fullmatch(r"\d+|last(Mon|Tue|Wed|Thu|Fri|Sat|Sun)|(Mon|Tue|Wed|Thu|Fri|Sat|Sun)(>=|<=)\d+", s)
        try:
            r = T._parse_on_day_string(s)
        except (ValueError, IndexError):
            r = (0, 0)     # a clean rejection
        if not valid and s.isascii() and r != (0, 0):
            # The property speaks about the strings of the accepted grammar only; what the parser does with other strings
            # ('Sat>= 7', 'Sat>=-1' are accepted through int()) is recorded, not judged (an earlier version of this check
            # reported them: that demanded more than the property states).
            nm[1] += 1

    near_miss()
    ctx.count("parser_near_misses", nm[0])
    ctx.count("parser_near_misses_accepted_not_judged", nm[1])
    ctx.exhaustive = True
    ctx.sample({"expr": "Fri<=1", "month": 4, "year": 2022, "calendar": list(oracle(2022, 4, 5, -1))})
    ctx.sample({"expr": "Sun>=25", "month": 2, "year": 2021, "calendar": list(oracle(2021, 2, 7, 25))})
    ctx.sample({"rejected_examples": sorted(removed.items())[:3]})
    ctx.rule = ("exhaustive: years 1873..2126 x 12 months x weekday 0..7 x day-of-month -31..31 whose limit date exists; for every "
                "expression admitted by the real transformer step: C++ calcStartDayOfMonth == Python calc_day_of_month == calendar "
                "enumeration, and the calendar answer stays inside the year; the zone UNTIL-day path for "
                + ("all years" if thorough else "1990..2017") + "; admitted cases re-run under ASan+UBSan; every string of the ON grammar and "
                "Hypothesis-generated near misses through _parse_on_day_string. Non-trivial = admitted cases that spill into a "
                "neighbouring month")


def san_job(a):
    """run the admitted cases; after a crash continue behind the crashing case (at most 12 crashes per shard)"""
    exe, lines = a
    crashes = []
    start = 0
    while start < len(lines) and len(crashes) < 12:
        rc, out, err = vt.run_exe(exe, ["daylist"], stdin="\n".join(lines[start:]) + "\n", timeout=3600)
        if rc == 0:
            break
        done = len((out or "").splitlines())
        crashes.append((lines[start + done] if start + done < len(lines) else "?", rc, (err or "")[-700:]))
        start += done + 1
    return crashes, len(lines)


if __name__ == "__main__":
    vt.main("C18", run)
