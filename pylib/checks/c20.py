"""C20 - generated artifacts are deterministic and mutually consistent."""
import ast
import importlib
import json
import shutil
import os
import re
import sys

import c03lib
import compilelib
import sweeplib
import tzexpand
import tzoracle
import vt


def canon(text):
    """Byte-level canonical form: drop the invocation line, sort the reasons listed inside one (...) comment."""
    out = []
    for line in text.splitlines():
        if "tzcompiler.py" in line and line.lstrip().startswith(("#", "//")):
            continue
        m = re.match(r"^(\s*(?:#|//)\s*\S+\s+)\((\[.*\]|\{.*\})\)\s*$", line)
        if m:
            try:
                v = ast.literal_eval(m.group(2))
                line = m.group(1) + "(" + repr(sorted(v)) + ")"
            except Exception:
                pass
        else:
            m = re.match(r"^(\s*(?:#|//)\s*\S+\s+)\((.*)\)\s*$", line)
            if m and ", " in m.group(2):
                line = m.group(1) + "(" + ", ".join(sorted(m.group(2).split(", "))) + ")"
        out.append(line)
    return out


def compile_job(a):
    work, name, src, scope, lang, seed, sy, uy = a
    r = compilelib.compile_source(work, name, src, scope, lang, db_namespace=("ns" + scope[0]) if lang == "arduino" else None,
                                  hashseed=seed, tz_version="c20", start_year=sy, until_year=uy,
                                  extra_args=["--generate_zone_strings"] if (lang == "arduino" and name.startswith("seconds")) else ())
    r["hashseed"] = seed
    return name, r


def import_generated(outdir, pkgname):
    pkgdir = os.path.join(os.path.dirname(outdir), pkgname)
    os.makedirs(pkgdir, exist_ok=True)
    for f in ("zone_infos.py", "zone_policies.py"):
        with open(os.path.join(outdir, f)) as src, open(os.path.join(pkgdir, f), "w") as dst:
            dst.write(src.read())
    open(os.path.join(pkgdir, "__init__.py"), "w").close()
    sys.path.insert(0, os.path.dirname(pkgdir))
    try:
        importlib.invalidate_caches()
        zi = importlib.import_module(pkgname + ".zone_infos")
        zp = importlib.import_module(pkgname + ".zone_policies")
    finally:
        sys.path.pop(0)
    return zi, zp


def count_check(ctx, tag, what, stated, counted):
    ctx.evaluations += 1
    if stated != counted:
        ctx.violation("count:%s" % what, {"artifact": tag, "stated": stated, "counted": counted},
                      "%s: header states %s = %s but the artifact contains %s" % (tag, what, stated, counted))


def comment_sections(text):
    """'// <Unsupported|Notable> <what>: N' comment sections of a generated header -> [(title, stated, listed entries)].
    An entry is a comment line '// name (reasons)' / '// name {reasons}' between the section header and the next header or code."""
    out = []
    lines = text.splitlines()
    i = 0
    while i < len(lines):
        m = re.match(r"^// ((?:Unsupported|Notable) [a-z ]+): (\d+)\s*$", lines[i])
        if not m:
            i += 1
            continue
        title, n = m.group(1), int(m.group(2))
        j = i + 1
        entries = 0
        while j < len(lines):
            l = lines[j]
            if re.match(r"^// (?:Unsupported|Notable|Supported) [a-z ]+: \d+", l) or (l.strip() and not l.startswith("//")):
                break
            if re.match(r"^// \S+ [({]", l):
                entries += 1
            j += 1
        out.append((title, n, entries))
        i = j
    return out


def stated(text, pattern):
    m = re.search(pattern, text, re.M)
    return int(m.group(1)) if m else None


def run(ctx):
    ctx.assumptions = [
        "sources: reconstructed 2020d and the vendored 2025b expansion (as in C03); two compiler runs per (source, scope, language) in "
        "fresh interpreters with PYTHONHASHSEED 0 and 1000+seed",
        "R1 compares byte for byte after dropping the invocation line (it contains the output path) and sorting the reasons listed "
        "inside one (...) comment",
        "R6 oracle: zic on the source reconstructed from the raw lines recorded in tools/zonedbpy",
    ]
    work = vt.build_dir("C20")
    thorough = ctx.tier == "thorough"
    nt = set()
    srcs = [("recon2020d", tzoracle.reconstruct_source("zonedbx")[0], 2000, 2050)]
    long, stats, kept = tzexpand.expand(open(os.path.join(vt.VERIF, "tzsrc", "2025b", "tzdata.zi")).read())
    srcs.append(("real2025b", long, 2000, 2050))
    # a small source with second-resolution offsets and an older year range (truncation paths of the generators)
    srcs.append(("seconds", "Zone\tAfrica/Monrovia\t-0:43:08\t-\tLMT\t1882\n\t\t\t-0:43:08\t-\tMMT\t1919\tMar\n"
                 "\t\t\t-0:44:30\t-\tMMT\t1972\tJan\t7\n\t\t\t0:00\t-\tGMT\n"
                 "Rule\tPX\t1960\tmax\t-\tApr\tSun>=1\t2:00:30\t1:00\tD\nRule\tPX\t1960\tmax\t-\tOct\tlastSun\t2:00\t0\tS\n"
                 "Zone\tTest/Seconds\t5:17:20\t-\tLMT\t1950\n\t\t\t5:17:20\tPX\tT%sT\t1985\tMar\t1\t2:00:30\n\t\t\t5:00\tPX\tT%sT\n"
                 "Rule\tPY\t1960\tmax\t-\tApr\tSun>=1\t2:00\t1:00\tD\nRule\tPY\t1960\tmax\t-\tOct\tlastSun\t2:00\t0\tS\n"
                 "Zone\tTest/Odd\t2:07:00\t-\tLMT\t1950\n\t\t\t2:07\tPY\tSAST\n"
                 "Rule\tPZ\t1960\tmax\t-\tApr\tSun>=1\t2:00\t1:00\tD\nRule\tPZ\t1960\tmax\t-\tApr\tSun>=22\t2:00\t0\tS\n"
                 "Zone\tTest/NotedAndRemoved\t5:07:00\t-\tLMT\t1950\n\t\t\t5:07\tPZ\tZ%sT\n"
                 "Link\tAfrica/Monrovia\tTest/Alias\n", 1965, 2000))
    # the names source of C11 (identifiers that collide after normalisation, links to zones that get removed, '+', '-', '_')
    import c11 as _c11
    srcs.append(("names", _c11.NAMES_SOURCE, 2000, 2050))
    # two tiny sources for the in-process sequences (R1c): their zone names differ but normalise to the same C++ identifier, and
    # a zone of the same name has no rules in one and several transitions a year in the other
    srcs.append(("syma", "Zone\tTest/Sym-Bol\t1:00\t-\tAAA\nZone\tTest/Shared\t1:00\t-\tSHA\n", 2000, 2050))
    srcs.append(("symb", "Rule\tPS\t1990\tmax\t-\tFeb\tSun>=8\t2:00\t1:00\tD\nRule\tPS\t1990\tmax\t-\tApr\tSun>=8\t2:00\t0\tS\n"
                 "Rule\tPS\t1990\tmax\t-\tJun\tSun>=8\t2:00\t1:00\tD\nRule\tPS\t1990\tmax\t-\tAug\tSun>=8\t2:00\t0\tS\n"
                 "Zone\tTest/Sym_Bol\t2:00\t-\tBBB\nZone\tTest/Shared\t2:00\tPS\tS%sT\n", 2000, 2050))
    jobs = []
    for label, src, sy, uy in srcs:
        for scope in ("extended", "basic"):
            for lang in ("arduino", "python"):
                # the small source is also compiled under six more hash seeds (set / dict iteration orders inside the compiler)
                seeds = (0, 1000 + ctx.seed) + ((1, 2, 3, 4, 5, 7) if label == "seconds" else ())
                for run_i, hs in enumerate(seeds):
                    jobs.append((work, "%s_%s_%s_%d" % (label, scope, lang, run_i), src, scope, lang, hs, sy, uy))
    results = dict(vt.pmap(compile_job, jobs))
    for label, src, sy, uy in srcs:
        emitted_by_scope = {}
        for scope in ("extended", "basic"):
            for lang in ("arduino", "python"):
                a = results["%s_%s_%s_0" % (label, scope, lang)]
                tag = "%s/%s/%s" % (label, scope, lang)
                others = []
                k_ = 1
                while "%s_%s_%s_%d" % (label, scope, lang, k_) in results:
                    others.append(results["%s_%s_%s_%d" % (label, scope, lang, k_)])
                    k_ += 1
                if a["rc"] != 0 or any(b["rc"] != 0 for b in others):
                    ctx.violation("compiler-failed:" + tag, {"log": (a["log"] + others[0]["log"])[-1500:]}, "tzcompiler failed for %s" % tag)
                    continue
                # R1 determinism
                files = sorted(f for f in os.listdir(a["outdir"]))
                for b in others:
                    if files != sorted(os.listdir(b["outdir"])):
                        ctx.violation("R1-fileset:" + tag, {}, "%s: the two runs produced different sets of files" % tag)
                for f, b in [(f_, b_) for b_ in others for f_ in files if os.path.exists(os.path.join(b_["outdir"], f_))]:
                    ta, tb = open(os.path.join(a["outdir"], f)).read(), open(os.path.join(b["outdir"], f)).read()
                    ctx.evaluations += 1
                    nt.add((label, scope, lang, "R1", f))
                    if f == "tzdb.json":
                        ja, jb = json.loads(ta), json.loads(tb)
                        for k in ("removed_zones", "removed_links", "removed_policies", "notable_zones", "notable_links", "notable_policies"):
                            ja[k] = {n: sorted(v) for n, v in ja[k].items()}
                            jb[k] = {n: sorted(v) for n, v in jb[k].items()}
                        same = ja == jb
                        first = "tzdb.json content"
                    else:
                        ca, cb = canon(ta), canon(tb)
                        same = ca == cb
                        first = next((("%r vs %r" % (x[:120], y[:120])) for x, y in zip(ca, cb) if x != y), "length differs") if not same else ""
                    if not same:
                        ctx.violation("R1:%s:%s:%s" % (scope, lang, f), {"artifact": tag, "file": f, "first_difference": first},
                                      "%s: %s differs between two compilations of the same source (PYTHONHASHSEED 0 vs %s): %s" %
                                      (tag, f, b.get("hashseed"), first))
                tz = compilelib.load_tzdb_json(a["outdir"])
                emitted = sorted(tz["zones_map"])
                if lang == "arduino":
                    emitted_by_scope[scope] = (emitted, tz, a["outdir"])
                # R3b the string collections: tzdb.json's zone_strings are exactly the emitted zone names and its format_strings
                # exactly the FORMAT / LETTER strings in use; with --generate_zone_strings the two C++ arrays say the same
                zs_ = sorted(tz.get("zone_strings", {}).get("ordered_map", {}))
                ctx.evaluations += 1
                nt.add((label, scope, lang, "R3b"))
                if zs_ != emitted:
                    ctx.violation("R3b-zone_strings:%s:%s" % (scope, lang), {"artifact": tag, "zone_strings": zs_[:5], "emitted": emitted[:5]},
                                  "%s: tzdb.json zone_strings %s... are not the emitted zone names %s..." % (tag, zs_[:3], emitted[:3]))
                fmts_ = set(tz.get("format_strings", {}).get("ordered_map", {}))
                used_ = set()
                for eras_ in tz["zones_map"].values():
                    for e_ in eras_:
                        used_.add(e_["format"].replace("%s", "%"))
                for rules_ in tz["rules_map"].values():
                    for r_ in rules_:
                        if len(r_["letter"]) > 1:
                            used_.add(r_["letter"])
                if not used_ <= fmts_:      # (a FORMAT may coincide with a zone name, e.g. CET, so no disjointness is required)
                    ctx.violation("R3b-format_strings:%s:%s" % (scope, lang), {"artifact": tag, "missing": sorted(used_ - fmts_)[:5]},
                                  "%s: tzdb.json format_strings lack %s" % (tag, sorted(used_ - fmts_)[:5]))
                zsc_ = os.path.join(a["outdir"], "zone_strings.cpp")
                if os.path.exists(zsc_):
                    txt_ = open(zsc_).read()
                    blocks_ = re.findall(r"// numStrings: (\d+)\n(?://[^\n]*\n)*const char\* const (k\w+)\[\] = \{(.*?)\};", txt_, re.S)
                    for n_, arr_, body_ in blocks_:
                        items_ = re.findall(r'\*/ "([^"]*)"', body_)
                        count_check(ctx, tag, "zone_strings.cpp %s numStrings" % arr_, int(n_), len(items_))
                        if arr_ == "kZoneStrings" and sorted(items_) != emitted:
                            ctx.violation("R3b-kZoneStrings:%s" % scope, {"artifact": tag, "items": items_[:5]}, "%s: kZoneStrings[] %s... are not the emitted zone names" % (tag, items_[:3]))
                        if arr_ == "kFormats" and not used_ <= set(items_):
                            ctx.violation("R3b-kFormats:%s" % scope, {"artifact": tag, "items": items_[:5]}, "%s: kFormats[] lacks %s" % (tag, sorted(used_ - set(items_))[:5]))
                # R3 zones.txt
                names = [l.strip() for l in open(os.path.join(a["outdir"], "zones.txt")) if l.strip() and not l.startswith("#")]
                ctx.evaluations += 1
                nt.add((label, scope, lang, "R3"))
                if sorted(names) != emitted:
                    ctx.violation("R3:%s:%s" % (scope, lang), {"artifact": tag, "only_in_zones_txt": sorted(set(names) - set(emitted))[:5],
                                                               "missing_from_zones_txt": sorted(set(emitted) - set(names))[:5]},
                                  "%s: zones.txt does not list exactly the emitted zones" % tag)
                if lang == "python":
                    # R2 imported tables == in-memory tables
                    zi, zp = import_generated(a["outdir"], "gen_%s_%s" % (label, scope))
                    p = c03lib.pipeline(a["indir"], scope, sy, uy)
                    ctx.evaluations += len(p["infos"]) + len(p["policies"])
                    nt.add((label, scope, "R2"))
                    if zi.ZONE_INFO_MAP != p["infos"]:
                        bad = [z for z in set(zi.ZONE_INFO_MAP) | set(p["infos"]) if zi.ZONE_INFO_MAP.get(z) != p["infos"].get(z)]
                        ctx.violation("R2-infos:" + scope, {"artifact": tag, "zones": sorted(bad)[:5]},
                                      "%s: imported ZONE_INFO_MAP differs from InlineGenerator.generate_maps() for %s" % (tag, sorted(bad)[:5]))
                    if {v["name"]: v for v in zp.ZONE_POLICY_MAP.values()} != {v["name"]: v for v in p["policies"].values()}:
                        ctx.violation("R2-policies:" + scope, {"artifact": tag}, "%s: imported ZONE_POLICY_MAP differs from the in-memory policies" % tag)
                    ti = open(os.path.join(a["outdir"], "zone_infos.py")).read()
                    tp = open(os.path.join(a["outdir"], "zone_policies.py")).read()
                    count_check(ctx, tag, "numInfos", stated(ti, r"^# numInfos: (\d+)"), len(zi.ZONE_INFO_MAP))
                    count_check(ctx, tag, "numEras", stated(ti, r"^# numEras: (\d+)"), sum(len(v["eras"]) for v in zi.ZONE_INFO_MAP.values()))
                    count_check(ctx, tag, "numPolicies", stated(tp, r"^# numPolicies: (\d+)"), len(zp.ZONE_POLICY_MAP))
                    count_check(ctx, tag, "numRules", stated(tp, r"^# numRules: (\d+)"), sum(len(v["rules"]) for v in zp.ZONE_POLICY_MAP.values()))
                    if len(zi.ZONE_INFO_MAP) != len(emitted):
                        ctx.violation("R2-count:" + scope, {"artifact": tag}, "%s: %d imported zones, %d emitted" % (tag, len(zi.ZONE_INFO_MAP), len(emitted)))
                else:
                    # R4 counts in the generated C++ headers
                    o = a["outdir"]
                    ih, ic = open(os.path.join(o, "zone_infos.h")).read(), open(os.path.join(o, "zone_infos.cpp")).read()
                    ph, pc = open(os.path.join(o, "zone_policies.h")).read(), open(os.path.join(o, "zone_policies.cpp")).read()
                    rc_ = open(os.path.join(o, "zone_registry.cpp")).read()
                    rh = open(os.path.join(o, "zone_registry.h")).read()
                    nzone = len(re.findall(r"^const \w+::ZoneInfo kZone\w+ ", ic, re.M))
                    nlink = len(re.findall(r"^const \w+::ZoneInfo& kZone\w+ ", ic, re.M))
                    count_check(ctx, tag, "zone_infos.cpp Zones", stated(ic, r"^// Zones: (\d+)"), nzone)
                    count_check(ctx, tag, "zone_infos.cpp Links", stated(ic, r"^// Links: (\d+)"), nlink)
                    count_check(ctx, tag, "zone_infos.h Supported zones", stated(ih, r"^// Supported zones: (\d+)"),
                                len(re.findall(r"^extern const \w+::ZoneInfo kZone\w+;", ih, re.M)))
                    count_check(ctx, tag, "zone_infos.h Supported links", stated(ih, r"^// Supported links: (\d+)"),
                                len(re.findall(r"^extern const \w+::ZoneInfo& kZone\w+;", ih, re.M)))
                    count_check(ctx, tag, "zone_infos.h Unsupported zones", stated(ih, r"^// Unsupported zones: (\d+)"), len(tz["removed_zones"]))
                    count_check(ctx, tag, "zone_policies.cpp Policies", stated(pc, r"^// Policies: (\d+)"), len(re.findall(r"^const \w+::ZonePolicy kPolicy\w+ ", pc, re.M)))
                    count_check(ctx, tag, "zone_policies.cpp Rules", stated(pc, r"^// Rules: (\d+)"), len(re.findall(r"/\*fromYearTiny\*/", pc)))
                    count_check(ctx, tag, "zone_policies.h Supported zone policies", stated(ph, r"^// Supported zone policies: (\d+)"),
                                len(re.findall(r"^extern const \w+::ZonePolicy kPolicy\w+;", ph, re.M)))
                    for fn_, txt_ in (("zone_infos.h", ih), ("zone_policies.h", ph)):
                        for title, n_, listed in comment_sections(txt_):
                            count_check(ctx, tag, "%s %s" % (fn_, title), n_, listed)
                            nt.add((label, scope, "R4", fn_, title))
                    count_check(ctx, tag, "kZoneRegistrySize", stated(rh, r"kZoneRegistrySize = (\d+)"), len(re.findall(r"^\s*&kZone\w+,", rc_, re.M)))
                    count_check(ctx, tag, "registry vs zones", len(re.findall(r"^\s*&kZone\w+,", rc_, re.M)), len(emitted))
                    nt.add((label, scope, "R4"))
        # R5 basic subset of extended, identical behaviour
        if "basic" in emitted_by_scope and "extended" in emitted_by_scope:
            eb, tzb, outb = emitted_by_scope["basic"]
            ex, tzx, outx = emitted_by_scope["extended"]
            missing = sorted(set(eb) - set(ex))
            if missing:
                ctx.violation("R5-subset:" + label, {"zones": missing[:10]}, "%s: zones emitted in basic scope but not in extended scope: %s" % (label, missing[:10]))
            trunc = c03lib.truncated_zones(tzb) | c03lib.truncated_zones(tzx)
            try:
                exe = compilelib.build_with_generated("C20", "sweep_" + label, "sweep.cpp", x_out=outx, x_ns="nse", b_out=outb, b_ns="nsb")
            except compilelib.GeneratedDoesNotCompile as e:
                ctx.violation("generated-does-not-compile:" + label, {"corpus": label, "compiler": str(e)[-1200:]},
                              "%s: the generated C++ artifacts are not valid C++: %s" % (label, str(e)[-400:]))
                continue
            bz, xz = sweeplib.list_zones(exe, "b"), sweeplib.list_zones(exe, "x")
            xi = {z: i for i, z in enumerate(xz)}
            shared = [z for z in bz if z in xi and z not in trunc]
            stride = 60 if thorough else 600
            rb, cb = sweeplib.run_sweep(exe, "b", len(bz), t0=tzoracle.t_of(max(sy, 1932)), t1=tzoracle.t_of(uy), stride=stride, indices=[bz.index(z) for z in shared])
            rx, cx = sweeplib.run_sweep(exe, "x", len(xz), t0=tzoracle.t_of(max(sy, 1932)), t1=tzoracle.t_of(uy), stride=stride, indices=[xi[z] for z in shared])
            for c in cb + cx:
                ctx.violation("R5-crash:" + label, c, "sweep of the fresh %s build crashed: %s" % (label, c["stderr"][-400:]))
            for z in shared:
                if z in rb and z in rx:
                    ctx.evaluations += rb[z].get("n", 0) + rx[z].get("n", 0)
                    nt.add((label, "R5", z))
                    d = sweeplib.first_difference(rb[z]["segs"], rx[z]["segs"])
                    if d:
                        ctx.violation("R5:%s:%s" % (label, z), {"corpus": label, "zone": z, "diff": d},
                                      "%s: zone %s behaves differently in the basic and the extended build at %s: %s" % (label, z, sweeplib.iso(d["t"]), json.dumps(d)[:400]))
            ctx.count("R5_zones_" + label, len(shared))
    # ---- R1c: an artifact does not depend on what the same interpreter compiled before it ----
    # (scripts import the generators and compile several scopes / languages / sources in one process)
    import subprocess
    seqs = [[("seconds", "basic", "arduino"), ("seconds", "extended", "arduino"), ("names", "extended", "python"), ("names", "basic", "python"),
             ("names", "basic", "arduino"), ("seconds", "extended", "python"), ("seconds", "basic", "python"), ("names", "extended", "arduino")],
            [("names", "extended", "arduino"), ("seconds", "extended", "python"), ("seconds", "extended", "arduino"), ("seconds", "basic", "arduino"),
             ("names", "basic", "python"), ("names", "extended", "python"), ("seconds", "basic", "python"), ("names", "basic", "arduino")],
            [("syma", "extended", "arduino"), ("symb", "extended", "arduino"), ("syma", "basic", "arduino"), ("symb", "basic", "arduino"),
             ("syma", "extended", "python"), ("symb", "extended", "python"), ("symb", "basic", "python"), ("syma", "basic", "python"),
             ("syma", "extended", "arduino")]]
    yrs = {l_: (sy_, uy_) for l_, s_, sy_, uy_ in srcs}
    for si, seq in enumerate(seqs):
        jl = []
        for k_, (label, scope, lang) in enumerate(seq):
            fresh = results["%s_%s_%s_0" % (label, scope, lang)]
            ea = []
            if lang == "arduino":
                ea += ["--db_namespace", "ns" + scope[0]]
                if label == "seconds":
                    ea += ["--generate_zone_strings"]
            jl.append({"input_dir": fresh["indir"], "output_dir": os.path.join(work, "inproc_%d_%d.out" % (si, k_)), "scope": scope, "language": lang,
                       "start_year": yrs[label][0], "until_year": yrs[label][1], "tz_version": "c20", "extra_args": ea})
            if os.path.exists(jl[-1]["output_dir"]):
                shutil.rmtree(jl[-1]["output_dir"])
        jf = os.path.join(work, "inproc_%d.json" % si)
        json.dump(jl, open(jf, "w"))
        env = dict(os.environ, PYTHONHASHSEED="0", PYTHONDONTWRITEBYTECODE="1", PYTHONPATH=os.path.join(vt.REPO, "tools"))
        pr = subprocess.run([compilelib.PY, os.path.join(vt.VERIF, "pylib", "tzc_inproc.py"), jf, os.path.join(vt.REPO, "tools")],
                            stdout=subprocess.PIPE, stderr=subprocess.PIPE, text=True, env=env)
        rcs = {int(l.split()[1]): int(l.split()[2]) for l in pr.stdout.splitlines() if l.startswith("JOB ")}
        for k_, (label, scope, lang) in enumerate(seq):
            tag = "%s/%s/%s" % (label, scope, lang)
            fresh = results["%s_%s_%s_0" % (label, scope, lang)]
            if fresh["rc"] != 0:
                continue
            hist = " ; ".join("%s/%s/%s" % x for x in seq[:k_]) or "(nothing)"
            if rcs.get(k_) != 0:
                ctx.violation("R1c-failed:%s:%s" % (scope, lang), {"artifact": tag, "compiled_before": hist, "stderr": pr.stderr[-1200:]},
                              "%s: the compiler succeeds in a fresh interpreter but fails (rc %s) after compiling %s in the same interpreter: %s" %
                              (tag, rcs.get(k_), hist, pr.stderr[-400:]))
                continue
            od = jl[k_]["output_dir"]
            fa, fb = sorted(os.listdir(fresh["outdir"])), sorted(os.listdir(od))
            if fa != fb:
                ctx.violation("R1c-fileset:%s:%s" % (scope, lang), {"artifact": tag, "compiled_before": hist}, "%s: other set of files after compiling %s in the same interpreter" % (tag, hist))
            for f in fa:
                if f not in fb:
                    continue
                ta, tb = open(os.path.join(fresh["outdir"], f)).read(), open(os.path.join(od, f)).read()
                ctx.evaluations += 1
                if k_ > 0:
                    nt.add((label, scope, lang, "R1c", f, si))
                if f == "tzdb.json":
                    ja, jb = json.loads(ta), json.loads(tb)
                    for k in ("removed_zones", "removed_links", "removed_policies", "notable_zones", "notable_links", "notable_policies"):
                        ja[k] = {n: sorted(v) for n, v in ja[k].items()}
                        jb[k] = {n: sorted(v) for n, v in jb[k].items()}
                    same, first = ja == jb, "tzdb.json content"
                else:
                    ca, cb = canon(ta), canon(tb)
                    same = ca == cb
                    first = next((("%r vs %r" % (x[:120], y[:120])) for x, y in zip(ca, cb) if x != y), "length differs") if not same else ""
                if not same:
                    ctx.violation("R1c:%s:%s:%s" % (scope, lang, f), {"artifact": tag, "file": f, "compiled_before": hist, "first_difference": first},
                                  "%s: %s differs from the fresh-interpreter compilation when %s was compiled before it in the same interpreter: %s" % (tag, f, hist, first))
    ctx.count("in_process_compilation_sequences", len(seqs))
    # ---- R6: the Python database checked into the repository ----
    sys.path.insert(0, os.path.join(vt.REPO, "tools"))
    try:
        zi = importlib.import_module("zonedbpy.zone_infos")
        zpm = importlib.import_module("zonedbpy.zone_policies")
    except BaseException as e:
        ctx.violation("R6-import", {"error": repr(e)}, "tools/zonedbpy does not import: %r" % e)
        zi = None
    if zi is not None:
        # reconstruct the source from zonedbpy's own recorded raw lines
        lines = []
        txt_p = open(os.path.join(vt.REPO, "tools/zonedbpy/zone_policies.py")).read()
        for m in re.finditer(r"^\s+# (Rule\s.*)$", txt_p, re.M):
            f = m.group(1).split()
            if len(f) >= 10:
                lines.append("\t".join(f))
        txt_i = open(os.path.join(vt.REPO, "tools/zonedbpy/zone_infos.py")).read()
        cur = None
        prev = None
        first = False
        for line in txt_i.splitlines():
            m = re.match(r"# Zone name: (\S+)", line)
            if m:
                cur, first = m.group(1), True
            elif line.strip() == "{" and cur and prev and prev.strip().startswith("#"):
                f = prev.strip()[1:].split()
                if len(f) >= 3:
                    lines.append(("Zone\t%s\t" % cur if first else "\t\t\t") + "\t".join(f))
                    first = False
            prev = line
        src = "\n".join(lines) + "\n"
        odir = os.path.join(work, "zic_zonedbpy")
        ok, err = tzoracle.zic_compile(src, odir)
        if not ok:
            raise vt.HarnessError("zic rejected the source reconstructed from zonedbpy: " + err[:400])
        t0, t1 = tzoracle.t_of(2000), tzoracle.t_of(2038)
        pj = [dict(info=info, odir=odir, t0=t0, t1=t1, zone=z) for z, info in zi.ZONE_INFO_MAP.items()]
        for res in vt.pmap(c03lib.py_zone_job, pj):
            if res["harness"]:
                raise vt.HarnessError(res["harness"])
            ctx.evaluations += res["n"]
            if res["transitions"]:
                nt.add(("zonedbpy", res["zone"]))
            if res["diff"]:
                ctx.violation("R6:%s" % res["zone"], {"zone": res["zone"], "diff": res["diff"]},
                              "tools/zonedbpy zone %s disagrees with zic on its own recorded lines: %s" % (res["zone"], json.dumps(res["diff"])[:500]))
        ctx.count("R6_zonedbpy_zones", len(pj))
    ctx.nontrivial = len(nt)
    ctx.sample({"R1": "real2025b/extended/arduino zone_policies.cpp: run with PYTHONHASHSEED=0 vs %d" % (1000 + ctx.seed)})
    ctx.sample({"R2": "import gen_real2025b_extended.zone_infos -> ZONE_INFO_MAP == InlineGenerator.generate_maps()[0]"})
    ctx.sample({"R5": "Europe/London: basic build stream == extended build stream over 2000..2049"})
    ctx.rule = ("sources {reconstructed 2020d, real 2025b} x scope x language x two runs (different hash seeds, fresh interpreters): R1 files "
                "identical (canonical form), R2 imported Python tables == in-memory tables, R3 zones.txt == emitted set, R4 every stated "
                "count == counted entries, R5 basic zones subset of extended and equal RLE streams through the two fresh builds, R6 every "
                "tools/zonedbpy zone x 2000..2037 vs zic on its recorded lines. Non-trivial = distinct (source, scope, language, relation[, file/zone]) comparisons")


if __name__ == "__main__":
    vt.main("C20", run)
