"""C14 - SystemClockLoop sync: applies good responses, backs off, never corrupts time."""
import itertools
import json
import subprocess

import hypothesis
from hypothesis import settings, strategies as st, Phase, HealthCheck, given

import vt

I32MIN = -2**31
CONFIGS = [(3600, 5, 1000), (16, 2, 500), (7, 1, 100), (60, 60, 1000), (2, 5, 10)]
STEPS = {
    (3600, 5, 1000): [1, 999, 1000, 5000, 60000],
    (16, 2, 500): [1, 499, 500, 2000, 16000],
    (7, 1, 100): [1, 100, 1000, 7000],
    (60, 60, 1000): [1, 1000, 30000, 60000],
    (2, 5, 10): [1, 10, 2000, 5000],
}


class Drv:
    def __init__(self, exe):
        self.p = subprocess.Popen([exe], stdin=subprocess.PIPE, stdout=subprocess.PIPE, text=True, bufsize=1 << 16)

    def cmd(self, line):
        self.p.stdin.write(line + "\n")
        self.p.stdin.flush()
        r = self.p.stdout.readline()
        if not r:
            raise vt.HarnessError("clock driver died on %r" % line)
        return r[2:].strip()

    def close(self):
        try:
            self.p.stdin.close()
            self.p.kill()
        except Exception:
            pass


class Checker:
    """Invariants over the logged history, written from the property statement.
    wiring: 0 none, 1 reference == backup, 2 distinct, 3 reference only, 4 backup only."""

    def __init__(self, cfg, wiring, m0, maxstep):
        self.sync, self.initial, self.timeout = cfg
        self.wiring = wiring
        self.m = m0
        self.maxstep = maxstep
        self.has_ref = wiring in (1, 2, 3)
        self.P = self.initial            # retry period in force (seconds)
        self.t_req = None                # time of the last sendRequest
        self.pending = False
        self.req_gap = None              # required minimum gap (s) before the next request
        self.t_start = m0
        self.t_success = None
        # clock value model (C13): set point (m0, T) candidates
        self.cands = []
        self.last_sync = I32MIN
        self.events = []                 # FSM-relevant event trace
        self.timed_out = False
        self.over = 0                    # loops that did not send although the longest admissible period has passed

    def reading(self, c):
        return c[1] + (self.m - c[0]) // 1000

    def step(self, d, ready, value, reply):
        """returns None or a violation message"""
        self.m += d
        left, _, right = reply.partition("|")
        now, last = [int(x) for x in left.split()]
        ev = right.split()
        t = self.m
        if not self.has_ref:
            if ev:
                return "I5: calls reached a fake clock although there is no reference clock: %s" % ev
            return self.check_time(now, last, None)
        # I6: readResponse only after isResponseReady() returned true in this loop
        seen_ready = False
        sent = False
        read_val = None
        backup_sets = []
        ref_sets = []
        for e in ev:
            tag, what = e[0], e[1:]
            if what == "s":
                sent = True
            elif what == "q1":
                seen_ready = True
            elif what.startswith("r:"):
                if not seen_ready:
                    return "I6: readResponse without a preceding isResponseReady()==true in the same loop: %s" % ev
                read_val = int(what[2:])
            elif what.startswith("n:"):
                (backup_sets if (tag == "B") else ref_sets).append(int(what[2:]))
        msg = None
        if sent:
            if read_val is not None:
                return "request sent and response read in the same loop: %s" % ev
            if self.pending and not self.timed_out:
                return "a new request was sent while one is outstanding and not timed out"
            if self.t_req is not None and self.req_gap is not None:
                if t - self.t_req < self.req_gap * 1000:
                    return "I3: requests at %d and %d ms are %d ms apart, retry period in force is %d s (%s)" % (
                        self.t_req, t, t - self.t_req, self.req_gap, self.events[-6:])
            self.t_req = t
            self.pending = True
            self.timed_out = False
            self.over = 0
            self.events.append("send")
        if read_val is not None:
            if not self.pending or self.timed_out:
                return "a response was read although no request is outstanding (late response applied?)"
            self.pending = False
            if read_val == I32MIN:
                self.events.append("invalid")
                self.fail()
                msg = self.check_time(now, last, None)
                if msg is None and (backup_sets or ref_sets):
                    msg = "I2: an invalid response wrote to a clock: %s" % ev
                return msg
            # valid response
            self.events.append("valid")
            before = [self.reading(c) for c in self.cands]
            changed = not self.cands or all(b != read_val for b in before)
            msg = self.check_time(now, last, read_val)
            if msg:
                return "I1: " + msg
            if self.wiring == 2:
                if changed and backup_sets != [read_val]:
                    return "I1: clock changed to %d but the distinct backup clock received %r" % (read_val, backup_sets)
                if not changed and backup_sets not in ([], [read_val]):
                    return "I1: backup clock received %r for response %d" % (backup_sets, read_val)
            elif backup_sets or ref_sets:
                return "I1: a clock was written although backup is %s: %s" % (
                    "the reference itself" if self.wiring == 1 else "absent", ev)
            if ref_sets:
                return "the reference clock was written by loop(): %s" % ev
            self.P = self.sync
            self.req_gap = self.sync
            self.t_success = t
            return None
        # no response read in this loop
        just_failed = False
        if self.pending and not self.timed_out and not sent:
            if not ready and t - self.t_req >= self.timeout:
                self.timed_out = True
                self.events.append("timeout")
                self.fail()
                just_failed = True
            elif ready:
                return "a ready response was not read (request outstanding since %d, now %d): %s" % (self.t_req, t, ev)
        msg = self.check_time(now, last, None)
        if msg is None and (backup_sets or ref_sets):
            msg = "I2: a clock was written without a valid response: %s" % ev
        if msg:
            return msg
        # I3 (upper side): the retry period never exceeds the sync period ("doubling ... up to the sync period"), so once
        # max(sync, initial) seconds have passed since the failed request (or since the successful response) the machine may
        # spend one loop() leaving its waiting state and must send on the next one
        if not sent and not just_failed and not (self.pending and not self.timed_out):
            ref = None
            if self.events and self.events[-1] == "valid":
                ref = self.t_success
            elif self.events and self.events[-1] in ("invalid", "timeout"):
                ref = self.t_req
            if ref is not None and t - ref >= max(self.sync, self.initial) * 1000:
                self.over += 1
                if self.over >= 2:
                    return ("I3: no request although %d ms have passed since the last %s (sync period %d s, initial period %d s): the "
                            "retry period in force exceeds the sync period (%s)" % (t - ref, "response" if self.events[-1] == "valid" else "failed request",
                                                                                   self.sync, self.initial, self.events[-6:]))
        # I4 progress
        base = self.t_req if self.t_req is not None else self.t_start
        bound = max(self.sync, self.initial) * 1000 + self.timeout + 3 * self.maxstep
        if self.t_success is not None and self.t_success >= base:
            base = self.t_success
        if not sent and t - base > bound:
            return "I4: no request for %d ms (bound %d ms) although loop() keeps being called" % (t - base, bound)
        return None

    def fail(self):
        self.req_gap = self.P
        self.P = min(2 * self.P, self.sync)
        self.pending = False if not self.timed_out else True

    def check_time(self, now, last, applied):
        if applied is not None:
            self.last_sync = applied
            same = [c for c in self.cands if self.reading(c) == applied]
            self.cands = same + [(self.m, applied)]
            if now != applied:
                return "after a valid response %d the clock reads %d" % (applied, now)
        if not self.cands:
            if now != I32MIN:
                return "clock reads %d before any valid response" % now
        else:
            ok = [c for c in self.cands if self.reading(c) == now]
            if not ok:
                return "I2/C13: clock reads %d at %d ms, want %s" % (now, self.m, [self.reading(c) for c in self.cands])
            self.cands = ok
        if last != self.last_sync:
            return "getLastSyncTime()=%d, want %d" % (last, self.last_sync)
        return None


def run_sequence(drv, cfg, wiring, m0, seq):
    """seq: [(delta, ready, value)], returns (violation or None, checker)"""
    drv.cmd("NEW %d %d %d %d %d 64" % (wiring, cfg[0], cfg[1], cfg[2], m0))
    ck = Checker(cfg, wiring, m0, max([s[0] for s in seq] + [1]))
    if any(x[2] == "quiet" for x in seq):
        # "with no reference clock it only keeps time": the clock is set by hand first, then loop() is the only caller for
        # stretches longer than the 16-bit millisecond window
        drv.cmd("SET 100000")
        ck.cands = [(m0, 100000)]
        ck.last_sync = 100000
    for i, (d, ready, value) in enumerate(seq):
        if value == "quiet":
            r = drv.cmd("STEPQ %d 0 0" % d)
            ck.m += d
            if r.partition("|")[2].split():
                return {"at": i, "message": "I5: calls reached a fake clock although there is no reference clock: %s" % r, "reply": r}, ck
            continue
        if value == "echo":
            # a valid response equal to what the clock shows at that moment (reference and clock did not drift)
            value = (ck.cands[0][1] + (ck.m + d - ck.cands[0][0]) // 1000) if ck.cands else 100000
        elif isinstance(value, str) and value.startswith("far"):
            # a valid response that differs from the shown time by a multiple of 65536 s (vanishes in a 16-bit difference)
            k_ = int(value[3:])
            value = ((ck.cands[0][1] + (ck.m + d - ck.cands[0][0]) // 1000) if ck.cands else 100000) + 65536 * k_
        r = drv.cmd("STEP %d %d %d" % (d, 1 if ready else 0, value))
        msg = ck.step(d, ready, value, r)
        if msg:
            return {"at": i, "message": msg, "reply": r}, ck
    return None, ck


def outcome_value(kind, m):
    if kind == "notready":
        return (False, 0)
    if kind == "invalid":
        return (True, I32MIN)
    if kind == "const":
        return (True, 100000)
    if kind == "echo":
        return (True, "echo")
    if kind.startswith("far"):
        return (True, kind)
    return (True, 200000 + m // 1000 * 3)


def enum_job(a):
    exe, cfg, wiring, depth, first = a
    drv = Drv(exe)
    steps = STEPS[cfg]
    outs = ["notready", "const", "varying", "invalid", "echo"]
    alphabet = [(s, o) for s in steps for o in outs]
    n = 0
    classes = set()
    fails = []
    for rest in itertools.product(alphabet, repeat=depth - 1):
        word = (alphabet[first],) + rest
        m = 1000
        seq = []
        for s, o in word:
            m += s
            ready, v = outcome_value(o, m)
            seq.append((s, ready, v))
        v, ck = run_sequence(drv, cfg, wiring, 1000, seq)
        n += 1
        classes.add(tuple(ck.events))
        if v and len(fails) < 3:
            fails.append({"cfg": cfg, "wiring": wiring, "m0": 1000, "seq": seq, "violation": v})
    drv.close()
    return n, classes, fails


def shrink(drv, f):
    cfg, wiring, m0, seq = tuple(f["cfg"]), f["wiring"], f["m0"], [tuple(x) for x in f["seq"]]
    v, _ = run_sequence(drv, cfg, wiring, m0, seq)
    if not v:
        return f
    seq = seq[:v["at"] + 1]
    changed = True
    while changed:
        changed = False
        for i in range(len(seq) - 1, -1, -1):
            cand = seq[:i] + seq[i + 1:]
            if not cand:
                continue
            v2, _ = run_sequence(drv, cfg, wiring, m0, cand)
            if v2:
                seq, v, changed = cand[:v2["at"] + 1], v2, True
                break
    return {"cfg": list(cfg), "wiring": wiring, "m0": m0, "seq": seq, "violation": v}


def run(ctx):
    ctx.assumptions = [
        "invariants I1..I6 are written from the property statement (retry period: initial, doubled per consecutive "
        "failure, capped at the sync period; sync period after a success) and used as a lower bound on request spacing",
        "a response that is ready at the first poll at or after the timeout is still a response (applied); a request "
        "counts as timed out from the first poll at/after the timeout that finds it not ready",
        "host build: unsigned long is 64 bit, so the millisecond counter does not wrap at 2^32 inside SystemClockLoop "
        "(the 32-bit wrap of loop()'s own arithmetic cannot be exercised on this host); SystemClock's 16-bit arithmetic is C13",
    ]
    exe = vt.build("C14", "clock", ["clock.cpp"], with_db=False)
    drv = Drv(exe)
    if ctx.replay:
        r = json.load(open(ctx.replay))["replay"]
        v, _ = run_sequence(drv, tuple(r["cfg"]), r["wiring"], r["m0"], [tuple(x) for x in r["seq"]])
        if v:
            ctx.violation("replay", r, "replayed sequence fails: %s" % v["message"])
        ctx.evaluations = 1
        return
    thorough = ctx.tier == "thorough"
    # ---- exhaustive enumeration to a depth bound ----
    jobs = []
    plan = [((7, 1, 100), 2, 6 if thorough else 5), ((2, 5, 10), 1, 6 if thorough else 4),
            ((16, 2, 500), 2, 5 if thorough else 4), ((7, 1, 100), 3, 5 if thorough else 4),
            ((2, 5, 10), 2, 5 if thorough else 4), ((60, 60, 1000), 1, 5 if thorough else 4),
            ((7, 1, 100), 0, 4), ((7, 1, 100), 4, 4)]
    for cfg, wiring, depth in plan:
        for first in range(len(STEPS[cfg]) * 5):
            jobs.append((exe, cfg, wiring, depth, first))
    allclasses = set()
    fails = []
    for n, classes, fl in vt.pmap(enum_job, jobs):
        ctx.evaluations += n
        ctx.count("enumerated_sequences", n)
        allclasses |= classes
        fails += fl
    # ---- fine approach to the end of the sync period after a success (first success at phase p, an 'echo' success q ms
    # into a second, then loop() every 50 / 100 ms until well past the sync period) ----
    fine = []
    for cfg in ((7, 1, 100), (2, 5, 10)):
        for wiring in (1, 2):
            for p_ in (0, 250, 700, 999):
                for q_ in (1, 250, 500, 750, 999):
                    for step_ in (50, 100, 333):
                        # send; first success; sync period passes (Ok -> Ready); send; success equal to the shown time
                        seq = [(1 + p_, False, 0), (1, True, 100000), (cfg[0] * 1000 + q_, False, 0), (1, False, 0), (1, True, "echo")]
                        seq += [(step_, False, 0)] * ((cfg[0] * 1000 + 1500) // step_)
                        fine.append((cfg, wiring, seq))
    for cfg, wiring, seq in fine:
        v, ck = run_sequence(drv, cfg, wiring, 1000, seq)
        ctx.evaluations += len(seq)
        if v:
            fails.append({"cfg": list(cfg), "wiring": wiring, "m0": 1000, "seq": seq, "violation": v})
    ctx.count("fine_approach_sequences", len(fine))
    # ---- nothing but failures: the reference never answers, or always answers with the invalid value; loop() every 250 ms
    # for the whole back-off and three more sync periods (the retry period must double up to the sync period and then STAY
    # there) ----
    for cfg in ((7, 1, 100), (16, 2, 500), (8, 1, 100), (10, 3, 100)):
        for ready, value in ((False, 0), (True, I32MIN)):
            total = 0
            p_ = cfg[1]
            while p_ < cfg[0]:
                total += p_
                p_ *= 2
            nsteps = (total + 5 * cfg[0]) * 4
            seq = [(250, ready, value)] * nsteps
            v, ck = run_sequence(drv, cfg, 1, 1000, seq)
            ctx.evaluations += len(seq)
            ctx.count("failure_only_sequences")
            if v:
                fails.append({"cfg": list(cfg), "wiring": 1, "m0": 1000, "seq": seq, "violation": v})
    # ---- sync periods above 32767 s (the full uint16 range of the constructor argument): a success, the whole period in
    # 60 s steps, a failed re-sync, and the period again; the retry after the failure must wait for the sync period ----
    for cfg in ((40000, 5, 1000), (65535, 5, 1000)):
        n60 = cfg[0] * 1000 // 60000 + 2
        # (the period used after a failure is recomputed only when the wait after that failure ends, so two failures are needed)
        seq = ([(1, False, 0), (1, True, 100000)] + [(60000, False, 0)] * n60 + [(1, True, I32MIN)] + [(60000, False, 0)] * (n60 + 2) +
               [(1, True, I32MIN)] + [(60000, False, 0)] * (n60 + 2))
        v, ck = run_sequence(drv, cfg, 1, 1000, seq)
        ctx.evaluations += len(seq)
        ctx.count("long_period_sequences")
        if v:
            fails.append({"cfg": list(cfg), "wiring": 1, "m0": 1000, "seq": seq, "violation": v})
        elif ck.events.count("send") < 4:
            raise vt.HarnessError("long-period sequence did not reach the fourth request: %r" % ck.events)
    # ---- Hypothesis generated longer histories ----
    hstats = {"n": 0, "fail_after_success": 0, "late_ready_after_timeout": 0, "saturation": 0, "noref_reads_after_65s_of_loops": 0}
    hfails = []

    step_strategy = st.tuples(st.integers(0, 8), st.sampled_from(["notready", "notready", "const", "varying", "invalid", "echo", "far1", "far-2"]))

    @hypothesis.seed(ctx.seed)
    @settings(max_examples=4000 if thorough else 600, deadline=None, database=None, phases=[Phase.generate],
              suppress_health_check=list(HealthCheck))
    @given(ci=st.integers(0, len(CONFIGS) - 1), wiring=st.sampled_from([1, 2, 2, 3, 0, 4]),
           m0=st.sampled_from([0, 999, 65000, 2**31, 2**32 - 5000, 2**32 + 17, 2**64 - 5000, 2**64 - 70000, 2**64 - 4000000]),
           word=st.lists(step_strategy, min_size=20, max_size=300 if thorough else 120))
    def gen(ci, wiring, m0, word):
        cfg = CONFIGS[ci]
        # every loop() polls the clock, so steps stay within SystemClock's documented 64,536 ms polling bound (C13)
        base = [b for b in STEPS[cfg] + [0, cfg[2] - 1, cfg[2], cfg[0] * 1000 - 1, cfg[0] * 1000] if b <= 60000]
        m = m0
        seq = []
        quiet_run = 0
        for k, (si, o) in enumerate(word):
            s = base[si % len(base)]
            m += s
            ready, v = outcome_value(o, m if m0 < 2**40 else m - m0)    # (the counter may start just below its wrap at 2^64)
            if wiring in (0, 4) and o in ("notready", "const", "invalid") and k % 7 != 6:
                # no reference clock: most loop() calls are not followed by a reading
                v = "quiet"
                quiet_run += s
            else:
                if quiet_run + s > 65536:
                    hstats["noref_reads_after_65s_of_loops"] += 1
                quiet_run = 0
            seq.append((s, ready, v))
        v, ck = run_sequence(drv, cfg, wiring, m0, seq)
        hstats["n"] += 1
        evs = ck.events
        allclasses.add(tuple(evs[:12]))
        for i in range(1, len(evs)):
            if evs[i] in ("invalid", "timeout") and "valid" in evs[:i]:
                hstats["fail_after_success"] += 1
                break
        fails_in_row = 0
        for e in evs:
            if e in ("invalid", "timeout"):
                fails_in_row += 1
                if cfg[1] * 2 ** fails_in_row >= cfg[0] and fails_in_row >= 2:
                    hstats["saturation"] += 1
                    break
            elif e == "valid":
                fails_in_row = 0
        if v:
            hfails.append({"cfg": list(cfg), "wiring": wiring, "m0": m0, "seq": seq, "violation": v})
        ctx.evaluations += len(seq)

    gen()
    ctx.count("hypothesis_histories", hstats["n"])
    ctx.count("histories_with_failure_after_success", hstats["fail_after_success"])
    ctx.count("histories_with_backoff_saturation", hstats["saturation"])
    ctx.count("noref_reads_after_65s_of_loops_only", hstats["noref_reads_after_65s_of_loops"])
    if not (fails or hfails) and hstats["noref_reads_after_65s_of_loops"] < 20:
        raise vt.HarnessError("generator degenerate (no-reference histories): %r" % hstats)
    ctx.nontrivial = len(allclasses)
    if not (fails or hfails):
        refd = max(1, hstats["n"] * 4 // 6)
        if hstats["fail_after_success"] < 0.05 * refd:
            raise vt.HarnessError("generator degenerate: %r" % hstats)
    allf = sorted(fails + hfails, key=lambda f: len(f["seq"]))
    seen = set()
    for f in allf[:40]:
        key = f["violation"]["message"].split(":")[0][:40]
        if key in seen:
            continue
        seen.add(key)
        small = shrink(drv, f)
        ctx.violation(key, small, "cfg (sync,initial,timeout)=%s wiring=%d: %s  [sequence of %d steps (delta_ms, ready, value)]" % (
            small["cfg"], small["wiring"], small["violation"]["message"], len(small["seq"])))
    ctx.extra["failures_collected"] = len(allf)
    ctx.sample({"cfg": [7, 1, 100], "wiring": 2, "sequence": [[1, False, 0], [100, True, 100000], [7000, True, I32MIN]]})
    for c in sorted(allclasses, key=len)[-3:]:
        ctx.sample({"fsm_event_trace": list(c)})
    drv.close()
    ctx.rule = ("(1) exhaustive: all sequences over {step sizes} x {not ready, valid(const), valid(varying), valid(= current reading), invalid} to depth "
                + ("5-6" if thorough else "4-5") + " for 8 (config, wiring) combinations; (2) Hypothesis-generated histories of 20.."
                + ("300" if thorough else "120") + " steps over all 5 configurations, 5 wirings and counter starts near 2^16/2^31/2^32. "
                "Each loop() reply (clock reading, last-sync time, logged calls on the fake clocks) is checked against invariants "
                "I1..I6. Non-trivial = distinct sequences of FSM-relevant events (send/valid/invalid/timeout)")


if __name__ == "__main__":
    vt.main("C14", run)
