"""C02 - Basic zones equal zic; Basic == Extended on shared zones; no dropped transitions."""
import json

import sweeplib
import tzoracle
import vt
import zonecheck
from checks_common import finish_zone_results


def run(ctx):
    ctx.assumptions = [
        "glibc zic/zdump and CPython zoneinfo (cross-checked) define 'what zic derives'",
        "TZ source reconstructed from the raw lines recorded beside the zonedb table entries (C12 ties them "
        "to the values)",
        "guarded hook SEANDST_ACETIME_VERIF counts transitions dropped by BasicZoneProcessor::addTransition",
    ]
    exe = sweeplib.build_sweep("C02")
    bz = sweeplib.list_zones(exe, "b")
    xz = sweeplib.list_zones(exe, "x")
    src, _, _ = tzoracle.reconstruct_source("zonedb")
    odir = sweeplib.scratch_dir("C02", "zic")
    ok, err = tzoracle.zic_compile(src, odir)
    if not ok:
        raise vt.HarnessError("zic rejected the reconstructed source: " + err[:2000])
    thorough = ctx.tier == "thorough"
    only = None
    if ctx.replay:
        only = json.load(open(ctx.replay))["replay"]["zone"]
    # Dec 31 / Jan 1 (UTC) at one-second resolution for every year: the previous-year cache path
    yb = []
    for y in range(2000, 2051):
        t = tzoracle.t_of(y)
        yb.append((t - 86400, t + 86400 - 1))
    jobs = []
    for zi, z in enumerate(bz):
        if only and z != only:
            continue
        jobs.append(dict(exe=exe, db="b", zi=zi, zone=z, odir=odir, t0=sweeplib.T0, t1=sweeplib.T1,
                         stride=1 if thorough else 60, radius=0 if thorough else 120,
                         nprobe=2000 if thorough else 300, seed=ctx.seed, keep_segs=True,
                         extra_windows=[] if thorough else yb))
    results = vt.pmap(zonecheck.check_zone, jobs)
    finish_zone_results(ctx, results, "b")
    ctx.count("jan1_dec31_seconds_probed", 0 if thorough else len(jobs) * len(yb) * 2 * 86400)
    # differential Basic vs Extended on the shared names
    shared = [z for z in bz if z in set(xz) and (not only or z == only)]
    xi = {z: i for i, z in enumerate(xz)}
    xres, crashes = sweeplib.run_sweep(exe, "x", len(xz), stride=1 if thorough else 60,
                                       indices=[xi[z] for z in shared])
    for c in crashes:
        ctx.violation("crash:x:%s" % c["zone"], c, "extended sweep crashed: %s" % c["stderr"][-800:])
    bsegs = {r["zone"]: r.get("lib_segs") for r in results}
    for z in shared:
        if z not in xres or bsegs.get(z) is None:
            continue
        ctx.evaluations += xres[z].get("n", 0)
        d = sweeplib.first_difference(bsegs[z], xres[z]["segs"])
        ctx.count("shared_zones_compared")
        if d:
            ctx.violation("basic-vs-extended:%s@%d" % (z, d["t"]), {"zone": z, "diff": d},
                          "Basic and Extended disagree for %s at %s: %s" % (z, sweeplib.iso(d["t"]), json.dumps(d)))
    ctx.extra["shared_zone_names"] = len(shared)
    ctx.rule = ctx.rule + ("; every second of every Dec 31 and Jan 1 (UTC) 2000..2050; plus the RLE stream "
                           "(minutes offset, minutes delta, abbrev) through BasicZoneProcessor must equal the one "
                           "through ExtendedZoneProcessor for every name in both registries; dropped-transition "
                           "hook counter must stay 0")


if __name__ == "__main__":
    vt.main("C02", run)
