"""C07 - local time resolution: identity if unique, forward in gaps, valid (later for Extended) in overlaps."""
import bisect
import json
import os
import random

import sweeplib
import tzoracle
import vt

DAY = 86400


def expected(ora, w):
    """-> (kind, [allowed (chosen_offset_s, result_offset_s)], occurrences)"""
    lo_i = max(0, bisect.bisect_right(ora._starts, w - 2 * DAY) - 1)
    hi_i = bisect.bisect_right(ora._starts, w + 2 * DAY)
    offs = sorted(set(s[1] for s in ora.segs[lo_i:hi_i]))
    occ = []
    for o in offs:
        t = w - o
        if ora.at(t)[0] == o:
            occ.append((t, o))
    occ.sort()
    if len(occ) == 1:
        return "unique", [(occ[0][1], occ[0][1])], occ
    if len(occ) >= 2:
        return "overlap", [(o, o) for t, o in occ], occ
    # gap: find the transition whose skipped wall interval contains w
    for i in range(max(1, lo_i), hi_i):
        T, o2 = ora.segs[i][0], ora.segs[i][1]
        o1 = ora.segs[i - 1][1]
        if T + o1 <= w < T + o2:
            t = w - o1
            return "gap", [(o1, ora.at(t)[0])], occ
    return "none", [], occ


def zone_job(a):
    exe, db, zi, zone, odir, seed, tier = a["exe"], a["db"], a["zi"], a["zone"], a["odir"], a["seed"], a["tier"]
    res = {"zone": zone, "db": db, "fails": [], "evaluations": 0, "nontrivial": 0, "hist": {}, "samples": [],
           "harness": None}
    try:
        # the oracle covers three more days on either side: local date-times of the first and last days of the supported
        # years are instants just outside [2000, 2050) UTC for zones east / west of Greenwich
        ora = tzoracle.ZoneOracle(os.path.join(odir, zone), sweeplib.T0 - 3 * DAY, sweeplib.T1 + 3 * DAY, zone)
    except vt.HarnessError as e:
        res["harness"] = str(e)
        return res
    lo_lim, hi_lim = sweeplib.T0, sweeplib.T1 - 1      # wall clock 2000-01-01T00:00:00 .. 2049-12-31T23:59:59
    wins = []   # (lo, hi, step)
    trans = ora.transitions()
    if a.get("only_window"):
        wins = [tuple(a["only_window"])]
        trans = []
    for T, before, after in trans:
        o1, o2 = before[0], after[0]
        c = T + o1
        wins.append((c - 200 * 60, c + 200 * 60, 60))
        # second resolution at the edges of the gap / overlap
        for edge in (T + o1, T + o2):
            wins.append((edge - 61, edge + 61, 1))
            if tier == "thorough":
                wins.append((edge - 3600, edge + 3600, 1))
    if not a.get("only_window"):
        for y in range(2000, 2051):
            t = tzoracle.t_of(y)
            wins.append((t - DAY, t + DAY - 60, 60))
        if tier == "thorough":
            # every wall-clock minute of the fifty years
            for y in range(2000, 2050):
                wins.append((tzoracle.t_of(y), tzoracle.t_of(y + 1) - 60, 60))
        # the first and the last two days of the supported years, every minute, and their outermost seconds
        wins.append((lo_lim, lo_lim + 2 * DAY, 60))
        wins.append((hi_lim - 2 * DAY, hi_lim, 60))
        wins.append((lo_lim, lo_lim + 61, 1))
        wins.append((hi_lim - 61, hi_lim, 1))
        rnd = random.Random("%s/%s/%d" % (zone, db, seed))
        for _ in range(5000 if tier == "thorough" else 500):
            w = rnd.randrange(lo_lim, hi_lim)
            wins.append((w, w, 1))
    wins = [(max(lo, lo_lim), min(hi, hi_lim), st) for lo, hi, st in wins if hi >= lo_lim and lo <= hi_lim]
    # align minute windows on whole minutes
    wins = [((lo // 60) * 60 if st == 60 else lo, hi, st) for lo, hi, st in wins]
    inp = "".join("W %d %d %d %d\n" % (zi, lo, hi, st) for lo, hi, st in wins)
    rc, out, err = vt.run_exe(exe, ["local", db], stdin=inp, timeout=3600)
    if rc != 0:
        res["fails"].append({"kind": "crash", "rc": rc, "stderr": (err or "")[-1200:], "T": 0})
        return res
    cur = None
    rles = []
    for line in out.splitlines():
        f = line.split()
        if f[0] == "W":
            cur = {"lo": int(f[2]), "hi": int(f[3]), "step": int(f[4]), "r": []}
            rles.append(cur)
        elif f[0] == "R":
            cur["r"].append((int(f[1]), int(f[2]), int(f[3])))
        elif f[0] == "E":
            cur["n"] = int(f[1])
    if len(rles) != len(wins):
        res["harness"] = "driver returned %d windows for %d requested" % (len(rles), len(wins))
        return res
    extended = db == "x"
    seen_nt = set()
    for win in rles:
        lo, hi, step = win["lo"], win["hi"], win["step"]
        res["evaluations"] += win.get("n", 0)
        # breakpoints of the expected function inside the window
        bps = set([lo])
        i0 = max(1, bisect.bisect_right(ora._starts, lo - 3 * DAY))
        i1 = bisect.bisect_right(ora._starts, hi + 3 * DAY)
        for i in range(i0, i1):
            T = ora.segs[i][0]
            for o in (ora.segs[i - 1][1], ora.segs[i][1]):
                if lo < T + o <= hi:
                    bps.add(T + o)
        rstarts = [r[0] for r in win["r"]]
        bps.update(rstarts)
        bl = sorted(bps)
        for k, b in enumerate(bl):
            end = bl[k + 1] if k + 1 < len(bl) else hi + 1
            w = b + ((lo - b) % step)
            if w >= end or w > hi:
                continue
            npts = (min(end, hi + 1) - 1 - w) // step + 1
            r = win["r"][bisect.bisect_right(rstarts, w) - 1]
            kind, allowed, occ = expected(ora, w)
            res["hist"][kind] = res["hist"].get(kind, 0) + npts
            if kind in ("gap", "overlap"):
                if (zone, w) not in seen_nt:
                    seen_nt.add((zone, w))
                    res["nontrivial"] += npts
            flags = r[2]
            chosen = result_off = None
            problem = None
            if flags & 1:
                problem = "result is an error value"
            else:
                chosen = r[1] // 100000
                result_off = ((r[1] % 100000) - 20000) * 60
                if flags & 2:
                    problem = "result is not normalised (rebuilding from its epoch seconds differs)"
                elif flags & 4:
                    problem = "result fields are not the instant shown in the result's offset"
                elif kind == "none":
                    problem = "oracle found neither an occurrence nor a gap (harness)"
                else:
                    if kind == "overlap" and extended:
                        allowed = [min(allowed)]      # later occurrence = smaller offset
                    if (chosen, result_off) not in allowed:
                        problem = "%s wall time: chosen offset %d s, result offset %d s; allowed %r" % (
                            kind, chosen, result_off, allowed)
                    elif kind == "unique" and flags & 8:
                        problem = "unique wall time but fields changed"
            if problem and kind == "none" and not (flags & 1):
                res["harness"] = "oracle could not classify wall %d in %s" % (w, zone)
                return res
            if problem:
                res["fails"].append({"kind": "local", "wall": w, "wall_iso": sweeplib.iso(w)[:-1], "points": npts,
                                     "class": kind, "problem": problem, "occurrences": occ, "step": step,
                                     "T": min([abs(s - w) for s in ora._starts[1:]] or [0])})
                if len(res["fails"]) >= 4:
                    return res
            elif kind in ("gap", "overlap") and len(res["samples"]) < 1:
                res["samples"].append({"zone": zone, "db": db, "wall": sweeplib.iso(w)[:-1], "class": kind,
                                       "chosen_offset_s": chosen, "result_offset_s": result_off,
                                       "occurrences": occ})
    return res


def run(ctx):
    ctx.assumptions = [
        "occurrence sets are computed from the zic oracle function alone (zic+zdump+zoneinfo, cross-checked)",
        "supported years for wall times: 2000-01-01T00:00:00 .. 2049-12-31T23:59:59 local (the oracle extends three days beyond on either side)",
    ]
    exe = sweeplib.build_sweep("C07")
    jobs = []
    only = None
    if ctx.replay:
        only = json.load(open(ctx.replay))["replay"]
    for db, dbdir in (("x", "zonedbx"), ("b", "zonedb")):
        zones = sweeplib.list_zones(exe, db)
        src, _, _ = tzoracle.reconstruct_source(dbdir)
        odir = sweeplib.scratch_dir("C07", "zic_" + db)
        ok, err = tzoracle.zic_compile(src, odir)
        if not ok:
            raise vt.HarnessError("zic rejected the reconstructed source: " + err[:2000])
        for zi, z in enumerate(zones):
            if only and (only["zone"] != z or only["db"] != db):
                continue
            j = dict(exe=exe, db=db, zi=zi, zone=z, odir=odir, seed=ctx.seed, tier=ctx.tier)
            if only:
                w = only["fail"]["wall"]
                j["only_window"] = (w, w, 1)
            jobs.append(j)
    results = vt.pmap(zone_job, jobs)
    for r in results:
        if r["harness"]:
            raise vt.HarnessError(r["harness"])
        ctx.evaluations += r["evaluations"]
        ctx.nontrivial += r["nontrivial"]
        for k, v in r["hist"].items():
            ctx.count(("extended_" if r["db"] == "x" else "basic_") + k, v)
        for s in r["samples"]:
            if s["class"] == "gap" or len(ctx.samples) % 2:
                ctx.sample(s, cap=10)
        for f in r["fails"]:
            key = "%s:%s:%s" % (f["kind"], r["db"], r["zone"])
            ctx.violation(key, {"zone": r["zone"], "db": r["db"], "fail": f},
                          "%s %s wall %s (%s): %s" % (r["db"], r["zone"], f.get("wall_iso"), f.get("class"),
                                                      f.get("problem", f.get("stderr"))))
    ctx.extra["zones_checked"] = len(results)
    ctx.rule = ("every zone of zonedbx (Extended) and zonedb (Basic) x every wall minute within +-200 min of every "
                "oracle transition, every second within +-61 s of every gap/overlap edge, every wall minute of every "
                "Dec 31/Jan 1, and seed-drawn wall times; expected result derived from the occurrence set "
                "{t : t + utoff(t) = w} of the zic oracle. Non-trivial = distinct (zone, wall time) lying in a gap or "
                "an overlap")


if __name__ == "__main__":
    vt.main("C07", run)
