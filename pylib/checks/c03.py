"""C03 - the TZ compiler preserves semantics end to end; unsupported zones are reported."""
import json
import os
import shutil

import hypothesis
from hypothesis import given, settings, strategies as st, Phase, HealthCheck

import c03lib
import compilelib
import sweeplib
import tzexpand
import tzgen
import tzoracle
import vt
import zonecheck


SIX_A_YEAR = (
    "Rule\tPA\t1990\tmax\t-\tFeb\tSun>=8\t2:00\t1:00\tD\n"
    "Rule\tPA\t1990\tmax\t-\tApr\tSun>=8\t2:00\t0\tS\n"
    "Rule\tPA\t1990\tmax\t-\tJun\tSun>=8\t2:00\t1:00\tD\n"
    "Rule\tPA\t1990\tmax\t-\tAug\tSun>=8\t2:00\t0\tS\n"
    "Rule\tPA\t1990\tmax\t-\tOct\tSun>=8\t2:00\t1:00\tD\n"
    "Rule\tPA\t1990\tmax\t-\tDec\tSun>=8\t2:00\t0\tS\n"
    "Zone\tGen/Zone0\t3:00\t-\tLMT\t1980\n"
    "\t\t\t3:00\tPA\tA%sT\n")

SEVEN_ERAS_A_YEAR = (
    "Zone\tGen/Zone0\t3:07\t-\tLMT\t1980\n"
    "\t\t\t3:00\t-\tAAA\t2010 Feb 1\n\t\t\t4:00\t-\tBBB\t2010 Apr 1\n\t\t\t5:00\t-\tCCC\t2010 Jun 1\n"
    "\t\t\t6:00\t-\tDDD\t2010 Aug 1\n\t\t\t7:00\t-\tEEE\t2010 Oct 1\n\t\t\t8:00\t-\tFFF\t2010 Dec 1\n\t\t\t9:00\t-\tGGG\n")

def _k_rules(name, k, start=0):
    mons = ["Feb", "Apr", "Jun", "Aug", "Oct", "Dec"]
    return "".join("Rule\t%s\t1990\tmax\t-\t%s\tSun>=8\t2:00\t%s\t%s\n" % (name, mons[(start + i) % 6], "1:00" if i % 2 == 0 else "0", "D" if i % 2 == 0 else "S")
                   for i in range(k))


# two policies with four transitions a year each and an era change between them in mid-2020: the estimated pool is one
# slot more than the extended processor has
POOL_NINE = (_k_rules("PA", 4) + _k_rules("PB", 4, 1) +
             "Zone\tGen/Zone0\t3:07\t-\tLMT\t1980\n\t\t\t3:00\tPA\tA%sT\t2020 Jul 1\n\t\t\t4:00\tPB\tB%sT\n")

KNOWN_PROBES = [
    ("capacity:pool-of-nine:extended", "extended", POOL_NINE),
    # seven eras inside one year: more ZoneEras than ExtendedZoneProcessor::kMaxMatches; the compiler must refuse the zone
    ("capacity:seven-eras-a-year:extended", "extended", SEVEN_ERAS_A_YEAR),
    # six rule transitions a year: more than either processor can hold. Extended: the compiler must refuse the zone (or
    # produce a correct one); basic: listed known finding
    ("capacity:six-transitions-a-year:extended", "extended", SIX_A_YEAR),
    ("capacity:six-transitions-a-year:basic", "basic", SIX_A_YEAR),
    ("basic-era-change-into-policy", "basic",
     "Rule\tPA\t1992\t2022\t-\tMar\t15\t1:00w\t2:00\tS\n"
     "Rule\tPA\t1992\t2022\t-\tOct\tlastThu\t2:00w\t0\t-\n"
     "Zone\tGen/Zone1\t-2:15\t-\tLMT\t1979\n"
     "\t\t\t-3:15\t-\tXST\t2014\n"
     "\t\t\t-4:15\tPA\tAAA/BBBB\n"),
]


def corpora(ctx, work):
    """-> [(label, src_text, stats)]"""
    out = []
    src, _, _ = tzoracle.reconstruct_source("zonedbx")
    out.append(("recon2020d", src, {}))
    zi = open(os.path.join(vt.VERIF, "tzsrc", "2025b", "tzdata.zi")).read()
    long, stats, kept = tzexpand.expand(zi)
    # validate the expansion: zic(original) == zic(expanded) over 1995..2055, zone by zone
    od, ld = os.path.join(work, "zi_orig"), os.path.join(work, "zi_long")
    ok1, e1 = tzoracle.zic_compile(zi, od)
    ok2, e2 = tzoracle.zic_compile(long, ld)
    if not (ok1 and ok2):
        raise vt.HarnessError("zic rejected the vendored 2025b source or its expansion: %s %s" % (e1[:300], e2[:300]))
    t0, t1 = tzoracle.t_of(1995), tzoracle.t_of(2055)
    a = sweeplib.oracle_segs(od, kept, t0, t1)
    b = sweeplib.oracle_segs(ld, kept, t0, t1)
    bad = [z for z in kept if a[z] != b[z]]
    if bad:
        # drop them (counted), never compare
        lines = []
        skip = False
        for line in long.splitlines():
            if line.startswith("Zone"):
                skip = line.split()[1] in bad
            elif not line.startswith("\t"):
                skip = False
            if line.startswith("Link") and line.split()[1] in bad:
                continue
            if not skip:
                lines.append(line)
        long = "\n".join(lines) + "\n"
    stats["expansion_not_zic_equivalent_dropped"] = bad
    out.append(("real2025b", long, stats))
    # a small hand-written source exercising the name-related filters: two zone names that normalise to the same C++
    # identifier, a link to the one that gets removed, a link to a surviving zone, a zone without '/' in its name
    out.append(("names", NAMES_SOURCE, {}))
    return out


NAMES_SOURCE = (
    "Rule\tPN\t1990\tmax\t-\tMar\tlastSun\t2:00\t1:00\tD\n"
    "Rule\tPN\t1990\tmax\t-\tOct\tlastSun\t3:00\t0\tS\n"
    "Zone\tTest/New-Town\t2:07\t-\tLMT\t1985\n\t\t\t2:00\tPN\tE%sT\n"
    "Zone\tTest/New_Town\t-5:07\t-\tLMT\t1985\n\t\t\t-5:00\t-\tEST\n"
    "Zone\tTest/Other\t1:07\t-\tLMT\t1985\n\t\t\t1:00\tPN\tC%sT\n"
    "Zone\tNOSLASH\t3:07\t-\tLMT\t1985\n\t\t\t3:00\t-\tMSK\n"
    "Link\tTest/New_Town\tTest/Newtown\n"
    "Link\tTest/Other\tTest/Alias\n"
    "Link\tTest/New-Town\tTest/NewTownAlias\n"
    "Link\tTest/Other\tTest/Twice\n"
    "Link\tNOSLASH\tTest/Twice\n")


def check_compiled(ctx, label, src, scope, work, thorough, nt, start_year=2000, until_year=2050):
    """One (source, scope): arduino path A + python path P + accounting."""
    tag = "%s/%s" % (label, scope)
    t0, t1 = tzoracle.t_of(start_year), tzoracle.t_of(until_year)
    odir = os.path.join(work, "zic_%s" % label)
    if not os.path.isdir(odir):
        ok, err = tzoracle.zic_compile(src, odir)
        if not ok:
            raise vt.HarnessError("zic rejected corpus %s: %s" % (label, err[:500]))
    ns = "g%s%s" % (scope[0], "".join(c for c in label if c.isalnum())[:6])
    r = compilelib.compile_source(work, "%s_%s" % (label, scope), src, scope, "arduino", db_namespace=ns,
                                  start_year=start_year, until_year=until_year, tz_version=label)
    if r["rc"] != 0:
        ctx.violation("compiler-failed:" + tag, {"corpus": label, "scope": scope, "log": r["log"][-1500:]},
                      "tzcompiler.py failed on a zic-accepted source (%s): %s" % (tag, r["log"][-700:]))
        return
    tz = compilelib.load_tzdb_json(r["outdir"])
    # ---- (b) accounting ----
    for kind, name, msg in c03lib.accounting(src, tz):
        ctx.violation("accounting:%s:%s" % (kind, scope), {"corpus": label, "scope": scope, "name": name}, "%s: %s" % (tag, msg))
    ctx.count("accounted_inputs", len(c03lib.source_names(src)[0]) + len(c03lib.source_names(src)[1]))
    trunc = c03lib.truncated_zones(tz)
    ctx.count("zones_with_truncation_note_excluded", len(trunc))
    emitted = sorted(tz["zones_map"])
    # ---- path A ----
    try:
        exe = compilelib.build_with_generated("C03", "sweep_%s_%s" % (label, scope), "sweep.cpp",
                                              x_out=r["outdir"] if scope == "extended" else None, x_ns=ns,
                                              b_out=r["outdir"] if scope == "basic" else None, b_ns=ns)
    except compilelib.GeneratedDoesNotCompile as e:
        ctx.violation("generated-not-compilable:" + tag, {"corpus": label, "scope": scope},
                      "%s: tzcompiler.py accepted the source but the C++ tables it wrote do not compile: %s" % (tag, str(e)[:700]))
        return
    db = "x" if scope == "extended" else "b"
    listed = sweeplib.list_zones(exe, db)
    if sorted(listed) != emitted:
        ctx.violation("registry-vs-tzdb:" + tag, {"corpus": label, "scope": scope}, "%s: compiled registry and tzdb.json disagree on the emitted zones" % tag)
    jobs = []
    for zi, z in enumerate(listed):
        if z in trunc:
            continue
        jobs.append(dict(exe=exe, db=db, zi=zi, zone=z, odir=odir, t0=t0, t1=t1, stride=60 if thorough else 300, radius=120,
                         nprobe=100, seed=ctx.seed))
    for res in vt.pmap(zonecheck.check_zone, jobs):
        if res["harness"]:
            raise vt.HarnessError(res["harness"])
        ctx.evaluations += res["evaluations"]
        if res["transitions"]:
            nt.add((label, scope, "A", res["zone"]))
        for d in res["diffs"]:
            ctx.violation("semantics-A:%s:%s:%s" % (scope, d["kind"], res["zone"]), {"corpus": label, "scope": scope, "zone": res["zone"], "diff": d},
                          "%s generated C++ tables, zone %s: %s" % (tag, res["zone"], json.dumps(d, default=str)[:900]))
        if scope == "extended" and res.get("highwater") is not None and not (res["highwater"] < res["bufsize"]):
            ctx.violation("bufsize:%s:%s" % (label, res["zone"]), {"corpus": label, "zone": res["zone"]},
                          "%s %s: generated transitionBufSize %d is not above the pool high-water %d" % (tag, res["zone"], res["bufsize"], res["highwater"]))
        if scope == "basic" and res.get("dropped"):
            ctx.violation("basic-dropped:%s:%s" % (label, res["zone"]), {"corpus": label, "zone": res["zone"]},
                          "%s %s: basic processor dropped %d transitions" % (tag, res["zone"], res["dropped"]))
    ctx.count("zones_path_A_" + scope, len(jobs))
    # ---- path P ----
    p = c03lib.pipeline(r["indir"], scope, start_year, until_year)
    if sorted(p["infos"]) != emitted:
        ctx.violation("python-vs-arduino-zones:" + tag, {"corpus": label, "scope": scope}, "%s: in-memory tables and tzdb.json disagree on the emitted zones" % tag)
    bad_counters = {k: v for k, v in p["extractor_counters"].items() if v}
    if bad_counters:
        ctx.violation("extractor-counters:" + tag, {"corpus": label, "counters": bad_counters}, "%s: extractor ignored/invalid lines on zic-accepted input: %r" % (tag, bad_counters))
    pj = [dict(info=p["infos"][z], odir=odir, t0=t0, t1=t1, zone=z) for z in emitted if z not in trunc]
    for res in vt.pmap(c03lib.py_zone_job, pj):
        if res["harness"]:
            raise vt.HarnessError(res["harness"])
        ctx.evaluations += res["n"]
        if res["transitions"]:
            nt.add((label, scope, "P", res["zone"]))
        if res["diff"]:
            ctx.violation("semantics-P:%s:%s" % (scope, res["zone"]), {"corpus": label, "scope": scope, "zone": res["zone"], "diff": res["diff"]},
                          "%s Python tables through ZoneSpecifier, zone %s: %s" % (tag, res["zone"], json.dumps(res["diff"])[:600]))
    ctx.count("zones_path_P_" + scope, len(pj))
    ctx.extra.setdefault("emitted", {})[tag] = {"zones": len(emitted), "removed_zones": len(tz["removed_zones"]), "links": len(tz["links_map"]),
                                                "removed_links": len(tz["removed_links"]), "policies": len(tz["rules_map"]),
                                                "removed_policies": len(tz["removed_policies"])}


def probe_path_a(ctx, key, scope, text, work, sy, uy):
    """One small source through tzcompiler.py -> generated C++ tables -> sweep driver, against zic. Zones on which the oracle
    readers disagree are skipped."""
    d = os.path.join(work, "probe_" + "".join(c for c in key if c.isalnum())[:30])
    odir = os.path.join(d, "zic")
    ok, err = tzoracle.zic_compile(text, odir)
    if not ok:
        raise vt.HarnessError("zic rejected a probe / replayed source")
    r = compilelib.compile_source(d, "probe", text, scope, "arduino", db_namespace="probe", start_year=sy, until_year=uy)
    if r["rc"] != 0:
        return
    tz = compilelib.load_tzdb_json(r["outdir"])
    trunc = c03lib.truncated_zones(tz) if tz else set()
    try:
        exe = compilelib.build_with_generated("C03", "sweep_probe_" + "".join(c for c in key if c.isalnum())[:20], "sweep.cpp",
                                              x_out=r["outdir"] if scope == "extended" else None, x_ns="probe",
                                              b_out=r["outdir"] if scope == "basic" else None, b_ns="probe")
    except compilelib.GeneratedDoesNotCompile as e:
        ctx.violation(key, {"source": text, "scope": scope, "start_year": sy, "until_year": uy}, "generated tables do not compile: %s" % str(e)[:500])
        return
    db = "x" if scope == "extended" else "b"
    for zi, z in enumerate(sweeplib.list_zones(exe, db)):
        if z in trunc:
            continue
        res = zonecheck.check_zone(dict(exe=exe, db=db, zi=zi, zone=z, odir=odir, t0=tzoracle.t_of(sy), t1=tzoracle.t_of(uy), stride=300,
                                        radius=120, nprobe=10, seed=ctx.seed))
        if res["harness"]:
            continue
        ctx.evaluations += res["evaluations"]
        if scope == "extended" and res.get("highwater") is not None and not (res["highwater"] < res["bufsize"] <= 8):
            ctx.violation(key, {"source": text, "scope": scope, "start_year": sy, "until_year": uy, "highwater": res["highwater"], "bufsize": res["bufsize"]},
                          "source through the generated C++ tables (extended), zone %s: recorded transitionBufSize %d, pool high-water %d "
                          "(must be high-water < recorded size <= 8 = ExtendedZoneProcessor::kMaxTransitions)" % (z, res["bufsize"], res["highwater"]))
        if res["diffs"]:
            ctx.violation(key, {"source": text, "scope": scope, "start_year": sy, "until_year": uy, "diff": res["diffs"][0]},
                          "source through the generated C++ tables (%s), zone %s: %s" % (scope, z, json.dumps(res["diffs"][0], default=str)[:400]))


def run(ctx):
    ctx.assumptions = [
        "oracle: glibc zic on the same source text (zdump + zoneinfo readers, cross-checked)",
        "corpora: source reconstructed from the shipped tables; the vendored 2025b tzdata.zi expanded to long form (expansion "
        "validated zone by zone against zic on the original; %z expanded, zones needing a multi-SAVE %z left out and counted); "
        "Hypothesis-generated sources from the 'registered layer' grammar of DESIGN 1.4",
        "zones / policies carrying a documented truncation note are excluded from the semantic comparison and counted",
        "path P = Extractor -> Transformer -> InlineGenerator -> ZoneSpecifier in-process; path A = generated C++ tables compiled "
        "into the sweep driver",
    ]
    work = vt.build_dir("C03")
    thorough = ctx.tier == "thorough"
    nt = set()
    if ctx.replay:
        r = json.load(open(ctx.replay))["replay"]
        if "corpus" in r:
            label = r["corpus"]
            for lab, src, stats in corpora(ctx, work):
                if label.rstrip("y") == lab:
                    yrs = (1995, 2040) if label.endswith("y") else (2000, 2050)
                    check_compiled(ctx, label, src, r["scope"], work, False, nt, start_year=yrs[0], until_year=yrs[1])
        if "source" in r:
            # (a zone on which the two oracle readers disagree is skipped here as in the search: the replay then only
            # re-examines the compiler's own behaviour - exceptions, accounting, counters)
            v = check_generated_source(ctx, r["source"], r.get("scope", "extended"), r.get("start_year", 2000), r.get("until_year", 2050), work, "replay",
                                       {"zic_rejected": 0, "zones_compared": 0})
            if v:
                ctx.violation(v["key"], {"source": v["source"], "scope": v["scope"], "start_year": v["sy"], "until_year": v["uy"], "detail": v["detail"]},
                              "replayed source (%s): %s" % (v["scope"], v["msg"]))
            else:
                probe_path_a(ctx, "replay-path-A:" + r.get("scope", "extended"), r.get("scope", "extended"), r["source"], work,
                             r.get("start_year", 2000), r.get("until_year", 2050))
        ctx.evaluations = 1
        return
    for label, src, stats in corpora(ctx, work):
        for k, v in stats.items():
            ctx.extra.setdefault("corpus_" + label, {})[k] = v if not isinstance(v, list) else v[:20]
        for scope in ("extended", "basic"):
            check_compiled(ctx, label, src, scope, work, thorough, nt)
        if thorough and label == "real2025b":
            check_compiled(ctx, label + "y", src, "extended", work, thorough, nt, start_year=1995, until_year=2040)
    # ---- fixed probes (path A) for earlier findings, re-examined on every run ----
    for key, scope, text in KNOWN_PROBES:
        probe_path_a(ctx, key, scope, text, work, 2000, 2050)
    # ---- generated sources ----
    gen_stats = {"n": 0, "features": {}, "zic_rejected": 0, "compiler_rejected": 0, "zones_compared": 0}
    fails = []

    batch = {"extended": [], "basic": []}

    def one(src_obj, basic, sy, uy):
        text = tzgen.render(src_obj)
        batch["basic" if basic else "extended"].append(src_obj)
        gen_stats["n"] += 1
        v = check_generated_source(ctx, text, "basic" if basic else "extended", sy, uy, work, "gen%d" % gen_stats["n"], gen_stats, nt)
        for f in tzgen.features(src_obj):
            gen_stats["features"][f] = gen_stats["features"].get(f, 0) + 1
        if v:
            fails.append(v)

    @hypothesis.seed(ctx.seed)
    @settings(max_examples=1500 if thorough else 120, deadline=None, database=None, phases=[Phase.generate],
              suppress_health_check=list(HealthCheck))
    @given(st.data())
    def gen(data):
        basic = data.draw(st.integers(0, 3)) == 0
        src_obj = data.draw(tzgen.source(basic))
        sy = data.draw(st.sampled_from([2000, 2000, 1995, 1990, 2005]))
        uy = data.draw(st.sampled_from([2050, 2050, 2040, 2060, 2038]))
        one(src_obj, basic, sy, uy)

    gen()
    # ---- generated sources through path A, compiled together per scope (names made unique by a per-source prefix) ----
    for scope in ("extended", "basic"):
        # the Hypothesis-drawn sources of this scope plus the enumerated small scope of era-boundary x rule interactions
        sysobjs = tzgen.systematic_sources(scope == "basic")
        ctx.count("systematic_sources_" + scope, len(sysobjs))
        # each enumerated source first goes through the Python path on its own (the compiler's own buffer-size estimation
        # runs ZoneSpecifier, so a source on which it raises would take the whole batch down)
        pre = vt.pmap(_systematic_job, [(tzgen.render(o), scope, os.path.join(work, "sys_%s_%d" % (scope, i)), o["label"]) for i, o in enumerate(sysobjs)])
        good = []
        for o, (n_eval, fail) in zip(sysobjs, pre):
            ctx.evaluations += n_eval
            if fail:
                fail["key"] = "systematic:%s:%s" % (scope, o["label"].replace(" ", "_"))
                fails.append(fail)
            else:
                good.append(o)
        objs = good + batch[scope][: (400 if thorough else 120)]
        if not objs:
            continue
        text = "".join(tzgen.render(o, "S%d" % i) for i, o in enumerate(objs))
        odir = os.path.join(work, "zic_genbatch_" + scope)
        ok, err = tzoracle.zic_compile(text, odir)
        if not ok:
            raise vt.HarnessError("zic rejected the batch of generated sources: " + err[:400])
        ns = "gen" + scope[0]
        r = compilelib.compile_source(work, "genbatch_" + scope, text, scope, "arduino", db_namespace=ns, tz_version="generated")
        if r["rc"] != 0:
            ctx.violation("gen-batch-compiler-failed:" + scope, {"log": r["log"][-1500:]}, "tzcompiler.py failed on the generated batch (%s): %s" % (scope, r["log"][-600:]))
            continue
        tzj = compilelib.load_tzdb_json(r["outdir"])
        trunc = c03lib.truncated_zones(tzj)
        try:
            exe = compilelib.build_with_generated("C03", "sweep_genbatch_" + scope, "sweep.cpp", x_out=r["outdir"] if scope == "extended" else None,
                                                  x_ns=ns, b_out=r["outdir"] if scope == "basic" else None, b_ns=ns)
        except compilelib.GeneratedDoesNotCompile as e:
            ctx.violation("gen-batch-not-compilable:" + scope, {"log": str(e)[:1500]},
                          "the C++ tables generated from the batch of generated sources (%s) do not compile: %s" % (scope, str(e)[:600]))
            continue
        db = "x" if scope == "extended" else "b"
        listed = sweeplib.list_zones(exe, db)
        jobs = [dict(exe=exe, db=db, zi=zi, zone=z, odir=odir, t0=tzoracle.t_of(2000), t1=tzoracle.t_of(2050), stride=300, radius=120,
                     nprobe=50, seed=ctx.seed) for zi, z in enumerate(listed) if z not in trunc]
        inconclusive = 0
        for res in vt.pmap(zonecheck.check_zone, jobs):
            if res["harness"]:
                inconclusive += 1
                continue
            ctx.evaluations += res["evaluations"]
            if res["transitions"]:
                nt.add(("generated", scope, "A", res["zone"]))
            import re as _re
            m = _re.match(r"Gen/S(\d+)", res["zone"])
            single = tzgen.render(objs[int(m.group(1))]) if m else ""
            for d in res["diffs"]:
                fails.append({"key": "gen-semantics-A:%s:%s" % (scope, d["kind"]), "msg": "generated C++ tables, zone %s: %s" % (res["zone"], json.dumps(d, default=str)[:500]),
                              "detail": d, "source": single, "scope": scope, "sy": 2000, "uy": 2050})
            if scope == "extended" and res.get("highwater") is not None and not (res["highwater"] < res["bufsize"]):
                fails.append({"key": "gen-bufsize", "msg": "zone %s: generated transitionBufSize %d not above pool high-water %d" % (res["zone"], res["bufsize"], res["highwater"]),
                              "detail": res["zone"], "source": single, "scope": scope, "sy": 2000, "uy": 2050})
            if scope == "basic" and res.get("dropped"):
                fails.append({"key": "gen-basic-dropped", "msg": "zone %s: basic processor dropped %d transitions" % (res["zone"], res["dropped"]),
                              "detail": res["zone"], "source": single, "scope": scope, "sy": 2000, "uy": 2050})
        ctx.count("generated_zones_path_A_" + scope, len(jobs) - inconclusive)
        ctx.count("generated_zones_path_A_oracle_inconclusive", inconclusive)
    ctx.count("generated_sources", gen_stats["n"])
    ctx.count("generated_zones_compared", gen_stats["zones_compared"])
    ctx.count("generated_sources_rejected_by_zic", gen_stats["zic_rejected"])
    for f, n in sorted(gen_stats["features"].items()):
        ctx.count("feature_" + f, n)
    ctx.count("generated_zones_oracle_inconclusive", gen_stats.get("oracle_inconclusive", 0))
    if gen_stats.get("oracle_inconclusive", 0) > 0.2 * max(1, gen_stats["zones_compared"]):
        raise vt.HarnessError("too many generated zones with an inconclusive oracle: %r" % gen_stats)
    if gen_stats["zic_rejected"] > 0.05 * max(1, gen_stats["n"]):
        raise vt.HarnessError("generator produces too many zic-invalid sources: %d of %d" % (gen_stats["zic_rejected"], gen_stats["n"]))
    seen = set()
    for v in sorted(fails, key=lambda f: len(f["source"])):
        k = v["key"]
        if k in seen:
            continue
        seen.add(k)
        ctx.violation(k, {"source": v["source"], "scope": v["scope"], "start_year": v["sy"], "until_year": v["uy"], "detail": v["detail"]},
                      "generated source (%s, %d..%d): %s\n%s" % (v["scope"], v["sy"], v["uy"], v["msg"], v["source"][:1200]))
    ctx.nontrivial = len(nt)
    ctx.sample({"corpus": "real2025b", "zone": "Europe/Dublin", "paths": ["A: generated zonedbx tables + ExtendedZoneProcessor", "P: ZoneSpecifier"]})
    ctx.sample({"generated_source_example": tzgen.render(tzgen.source(False).example()) if False else "Rule PA 1985 max - Mar lastSun 2:00s 1:00 D / Zone Gen/Zone0 3:17 PA X%sT 2011 Jul 3 1:00u / 4:17 - ZONE5"})
    ctx.rule = ("corpora {reconstructed 2020d, real 2025b (443 zones)} x scope {basic, extended}: every emitted zone through the generated "
                "C++ tables (path A: " + ("60" if thorough else "300") + " s stride + per-second windows round every oracle transition, "
                "field probes) and through the Python tables (path P: every oracle transition +-1 s and month starts) vs zic over "
                "[start_year, until_year); accounting of every input zone / link / policy (emitted xor removed-with-reason); extractor "
                "counters; generated bufSize vs pool high-water; plus Hypothesis-generated small sources (both scopes, varying year "
                "ranges) through path P. Non-trivial = distinct (corpus, scope, path, zone) with at least one transition in range")


class _Counter:
    def __init__(self):
        self.evaluations = 0


def _systematic_job(a):
    text, scope, d, label = a
    c = _Counter()
    os.makedirs(d, exist_ok=True)
    f = check_generated_source(c, text, scope, 2000, 2050, d, "s", {"zic_rejected": 0, "zones_compared": 0}, None)
    return c.evaluations, f


def check_generated_source(ctx, text, scope, sy, uy, work, tag, gen_stats=None, nt=None):
    """-> None or failure dict"""
    d = os.path.join(work, "gen", tag)
    if os.path.isdir(d):
        shutil.rmtree(d)
    os.makedirs(d)
    odir = os.path.join(d, "zic")
    ok, err = tzoracle.zic_compile(text, odir)
    if not ok or "warning" in err.lower():
        if gen_stats is not None:
            gen_stats["zic_rejected"] += 1
        shutil.rmtree(d, ignore_errors=True)
        return None
    ind = compilelib.write_input_dir(text, os.path.join(d, "in"))
    fail = None
    try:
        p = c03lib.pipeline(ind, scope, sy, uy)
    except BaseException as e:
        fail = {"key": "gen-compiler-exception:%s:%s" % (scope, type(e).__name__), "msg": "the compiler raised %s: %s on a zic-accepted source" % (type(e).__name__, str(e)[:200]),
                "detail": repr(e)[:300]}
        p = None
    if p is not None:
        for kind, name, msg in c03lib.accounting(text, p):
            fail = {"key": "gen-accounting:%s:%s" % (kind, scope), "msg": msg, "detail": name}
            break
        bad = {k: v for k, v in p["extractor_counters"].items() if v}
        if bad and not fail:
            fail = {"key": "gen-extractor-counters:%s" % scope, "msg": "extractor counters %r" % bad, "detail": bad}
        trunc = c03lib.truncated_zones(p)
        t0, t1 = tzoracle.t_of(sy), tzoracle.t_of(uy)
        for z, info in p["infos"].items():
            if z in trunc:
                continue
            res = c03lib.py_zone_job(dict(info=info, odir=odir, t0=t0, t1=t1, zone=z))
            if res["harness"]:
                # zdump and zoneinfo disagree about zic's own output (e.g. rules that have no POSIX-TZ footer): the
                # oracle is unusable for this zone; the case is discarded and counted, never compared
                if gen_stats is not None:
                    gen_stats["oracle_inconclusive"] = gen_stats.get("oracle_inconclusive", 0) + 1
                    continue
                raise vt.HarnessError(res["harness"])
            ctx.evaluations += res["n"]
            if gen_stats is not None:
                gen_stats["zones_compared"] += 1
            if nt is not None and res["transitions"]:
                nt.add(("generated", scope, tag, z))
            if res["diff"] and not fail:
                fail = {"key": "gen-semantics:%s" % scope, "msg": "zone %s: Python tables disagree with zic: %s" % (z, json.dumps(res["diff"])[:400]),
                        "detail": res["diff"]}
    shutil.rmtree(d, ignore_errors=True)
    if fail:
        fail.update({"source": text, "scope": scope, "sy": sy, "uy": uy})
    return fail


if __name__ == "__main__":
    vt.main("C03", run)
