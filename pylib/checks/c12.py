"""C12 - zone tables are a faithful encoding: C++ decode equals what was encoded; shipped tables == generator(source lines)."""
import copy
import json
import os
import re
import subprocess

import compilelib
import dblib
import tzoracle
import vt

SUFFIX = {"w": 0x00, "s": 0x10, "u": 0x20}
SAFE_LETTERS = [c for c in "ABCDEFGHIJKLMNOPQRSTUVWXYZabcdefghijklmnopqrstuvwxyz0123456789-+^_"]


def base_tzdb(scope):
    return {"tz_version": "synthetic", "tz_files": ["africa"], "scope": scope, "start_year": 2000, "until_year": 2050,
            "until_at_granularity": 60, "offset_granularity": 60 if scope == "extended" else 900, "strict": True,
            "zones_map": {}, "links_map": {}, "rules_map": {}, "removed_zones": {}, "removed_links": {}, "removed_policies": {},
            "notable_zones": {}, "notable_links": {}, "notable_policies": {},
            "format_strings": {"ordered_map": {}, "size": 0, "orig_size": 0}, "zone_strings": {"ordered_map": {}, "size": 0, "orig_size": 0}}


def _raw(truncated, skew):
    """A raw (untruncated) value that the transformer would have truncated (toward zero) to `truncated`: the generators must
    encode the *Truncated fields, never these."""
    return truncated + skew if truncated >= 0 else truncated - skew


def mk_rule(at_minutes, suffix, delta_seconds, from_year, to_year, letter, in_month=3, dow=7, dom=8):
    r = mk_rule0(at_minutes, suffix, delta_seconds, from_year, to_year, letter, in_month, dow, dom)
    r["atSeconds"] = _raw(r["atSecondsTruncated"], 37)
    r["deltaSeconds"] = _raw(r["deltaSecondsTruncated"], 11)
    return r


def mk_era(offset_seconds, rules, delta_seconds, fmt, until_year, until_month, until_day, until_minutes, suffix):
    e = mk_era0(offset_seconds, rules, delta_seconds, fmt, until_year, until_month, until_day, until_minutes, suffix)
    e["untilSeconds"] = _raw(e["untilSecondsTruncated"], 41)
    e["offsetSeconds"] = _raw(e["offsetSecondsTruncated"], 23)
    e["rulesDeltaSeconds"] = _raw(e["rulesDeltaSecondsTruncated"], 13)
    return e


def mk_rule0(at_minutes, suffix, delta_seconds, from_year, to_year, letter, in_month=3, dow=7, dom=8):
    return {"fromYear": from_year, "toYear": to_year, "inMonth": in_month, "onDay": "x", "atTime": "x", "atTimeSuffix": suffix,
            "deltaOffset": "x", "letter": letter, "rawLine": "Rule synthetic", "atSeconds": at_minutes * 60,
            "atSecondsTruncated": at_minutes * 60, "deltaSeconds": delta_seconds, "deltaSecondsTruncated": delta_seconds,
            "onDayOfWeek": dow, "onDayOfMonth": dom}


def mk_era0(offset_seconds, rules, delta_seconds, fmt, until_year, until_month, until_day, until_minutes, suffix):
    return {"offsetString": "x", "rules": rules, "format": fmt, "untilYear": until_year, "untilYearOnly": False,
            "untilMonth": until_month, "untilDayString": str(until_day), "untilTime": "x", "untilTimeSuffix": suffix,
            "rawLine": "synthetic era", "untilDay": until_day, "untilSeconds": until_minutes * 60,
            "untilSecondsTruncated": until_minutes * 60, "offsetSeconds": offset_seconds, "offsetSecondsTruncated": offset_seconds,
            "rulesDeltaSeconds": delta_seconds, "rulesDeltaSecondsTruncated": delta_seconds}


def synth(scope, part):
    """Build synthetic zones/policies covering the admissible value product. Returns (tzdb, expected)
    expected: {("era", zone, idx): {...}, ("rule", policy_zone, idx): {...}}"""
    t = base_tzdb(scope)
    exp = {}
    saves = list(range(-3600, 9901, 900))                      # -1:00 .. +2:45
    times = [(m, s) for m in range(0, 1501) for s in "wsu"]    # 00:00 .. 25:00
    # --- rules: AT time x suffix, SAVE, years, letters ---
    rules = []
    years = [0, 9999] + list(range(1872, 2128))      # every year the transformer admits (int8 offsets from 2000) and the two markers
    for i, (m, s) in enumerate(times):
        if i % 3 != part % 3:
            continue
        fy = years[i % len(years)]
        ty = years[(i * 7 + 3) % len(years)]
        rules.append(mk_rule(m, s, saves[i % len(saves)], fy, ty, SAFE_LETTERS[i % len(SAFE_LETTERS)],
                             in_month=1 + i % 12, dow=i % 8, dom=(i % 63) - 31))
    # policies of <= 100 rules, one zone per policy
    npol = 0
    for k in range(0, len(rules), 100):
        name = "P%d" % npol
        t["rules_map"][name] = rules[k:k + 100]
        zname = "Syn/Rules%d" % npol
        t["zones_map"][zname] = [mk_era(0, name, 0, "X%sT", 10000, 1, 1, 0, "w")]
        for j, r in enumerate(rules[k:k + 100]):
            exp[("rule", zname, j)] = r
        npol += 1
    # multi-character letters: policies with 1..31 distinct strings
    for nletters in (1, 2, 3, 5, 8, 13, 21, 31) if part == 0 else ():
        name = "L%d" % nletters
        letters = ["%s%02d" % ("LT" if q % 2 else "ab", q) for q in range(nletters)]
        rs = [mk_rule(120, "w", 3600 if q % 2 else 0, 1990, 9999, letters[q], in_month=1 + q % 12) for q in range(nletters)]
        rs.append(mk_rule(60, "s", 0, 1980, 1989, "S"))
        t["rules_map"][name] = rs
        zname = "Syn/Letters%d" % nletters
        t["zones_map"][zname] = [mk_era(3600, name, 0, "Z%sT", 10000, 1, 1, 0, "w")]
        for j, r in enumerate(rs):
            exp[("rule", zname, j)] = r
    # --- eras: UNTIL time x suffix, STDOFF, fixed SAVE, UNTIL year/month/day ---
    if scope == "extended":
        offsets = [o * 60 for o in range(-960, 961)]
    else:
        offsets = [o * 900 for o in range(-64, 65)]
    eras = []
    uy = list(range(1873, 2128))
    for i, (m, s) in enumerate(times):
        if i % 3 != part % 3:
            continue
        off = offsets[i % len(offsets)]
        sv = saves[(i // 3) % len(saves)] if scope == "extended" else [0, 3600, 1800, -3600, 7200][i % 5]
        eras.append(mk_era(off, "-" if i % 2 else ":", sv, "F%02d" % (i % 100), uy[i % len(uy)], 1 + i % 12, 1 + i % 28, m, s))
    # every offset at least once with every minute remainder
    for i, off in enumerate(offsets):
        if i % 3 != part % 3:
            continue
        eras.append(mk_era(off, "-", saves[i % len(saves)] if scope == "extended" else 0, "G", uy[i % len(uy)], 6, 15, 0, "w"))
    nz = 0
    for k in range(0, len(eras), 90):
        zname = "Syn/Eras%d" % nz
        chunk = eras[k:k + 90] + [mk_era(0, "-", 0, "END", 10000, 1, 1, 0, "w")]
        t["zones_map"][zname] = chunk
        for j, e in enumerate(chunk):
            exp[("era", zname, j)] = e
        nz += 1
    return t, exp


def generate(tzdb, outdir, ns):
    from zonedb.argenerator import ArduinoGenerator
    os.makedirs(outdir, exist_ok=True)
    buf = {z: 4 for z in tzdb["zones_map"]}
    import logging
    logging.disable(logging.CRITICAL)
    try:
        g = ArduinoGenerator(invocation="synthetic", db_namespace=ns, generate_zone_strings=False, tzdb=tzdb, buf_sizes=buf)
        g.generate_files(outdir)
    finally:
        logging.disable(logging.NOTSET)


def tiny(year, kind):
    if kind == "until":
        return 127 if year == 10000 else year - 2000
    if year == 9999:
        return 126
    if year == 0:
        return -127      # MIN_YEAR_TINY (ZoneRule::kMinYearTiny); -128 is the invalid marker
    return year - 2000


def compare(ctx, scope, dump, exp, nt):
    zones = {z["name"]: z for z in dump["zones"]["x" if scope.startswith("extended") else "b"]}
    for (kind, zname, idx), want in exp.items():
        ctx.evaluations += 1
        z = zones.get(zname)
        if z is None:
            ctx.violation("missing-zone:%s" % scope, {"zone": zname}, "synthetic zone %s missing from the compiled table" % zname)
            continue
        if kind == "era":
            e = z["eras"][idx]
            w = {"offsetMinutes": want["offsetSecondsTruncated"] // 60 if want["offsetSecondsTruncated"] % 60 == 0 else None,
                 "deltaMinutes": want["rulesDeltaSecondsTruncated"] // 60,
                 "untilYearTiny": tiny(want["untilYear"], "until"), "untilMonth": want["untilMonth"], "untilDay": want["untilDay"],
                 "untilTimeMinutes": want["untilSecondsTruncated"] // 60, "untilTimeSuffix": SUFFIX[want["untilTimeSuffix"]],
                 "format": want["format"].replace("%s", "%")}
            got = {k: e[k] for k in w}
            if want["offsetSecondsTruncated"] < 0 or want["offsetSecondsTruncated"] % 900 or want["rulesDeltaSecondsTruncated"] < 0 \
                    or want["untilSecondsTruncated"] % 900 or want["untilYear"] in (1873, 2127, 10000):
                nt.add(("era", want["offsetSecondsTruncated"], want["rulesDeltaSecondsTruncated"], want["untilSecondsTruncated"],
                        want["untilTimeSuffix"], want["untilYear"]))
            if got != w:
                diff = {k: (got[k], w[k]) for k in w if got[k] != w[k]}
                ctx.violation("era:%s:%s" % (scope, "/".join(sorted(diff))),
                              {"scope": scope, "encoded": {k: want[k] for k in ("offsetSecondsTruncated", "rulesDeltaSecondsTruncated",
                               "untilYear", "untilMonth", "untilDay", "untilSecondsTruncated", "untilTimeSuffix", "format")}},
                              "%s era: decoded (got, want) differ: %r for encoded offset %d s, SAVE %d s, UNTIL %d-%d-%d %d min %s" %
                              (scope, diff, want["offsetSecondsTruncated"], want["rulesDeltaSecondsTruncated"], want["untilYear"],
                               want["untilMonth"], want["untilDay"], want["untilSecondsTruncated"] // 60, want["untilTimeSuffix"]))
        else:
            pol = z["eras"][0]["policy"]
            if pol is None or idx >= len(pol["rules"]):
                ctx.violation("missing-rule:%s" % scope, {"zone": zname, "idx": idx}, "rule %d of %s missing" % (idx, zname))
                continue
            r = pol["rules"][idx]
            w = {"fromYearTiny": tiny(want["fromYear"], "rule"), "toYearTiny": tiny(want["toYear"], "rule"), "inMonth": want["inMonth"],
                 "onDayOfWeek": want["onDayOfWeek"], "onDayOfMonth": want["onDayOfMonth"],
                 "atTimeMinutes": want["atSecondsTruncated"] // 60, "atTimeSuffix": SUFFIX[want["atTimeSuffix"]],
                 "deltaMinutes": want["deltaSecondsTruncated"] // 60, "letter": want["letter"]}
            got = {k: r[k] for k in w}
            if want["deltaSecondsTruncated"] < 0 or want["atSecondsTruncated"] % 900 or len(want["letter"]) > 1 or \
                    want["fromYear"] in (0, 9999, 1873) or want["toYear"] in (0, 9999, 2126):
                nt.add(("rule", want["atSecondsTruncated"], want["atTimeSuffix"], want["deltaSecondsTruncated"], want["fromYear"],
                        want["toYear"], want["letter"]))
            if got != w:
                diff = {k: (got[k], w[k]) for k in w if got[k] != w[k]}
                ctx.violation("rule:%s:%s" % (scope, "/".join(sorted(diff))),
                              {"scope": scope, "encoded": {k: want[k] for k in ("atSecondsTruncated", "atTimeSuffix", "deltaSecondsTruncated",
                               "fromYear", "toYear", "letter", "inMonth", "onDayOfWeek", "onDayOfMonth")}},
                              "%s rule: decoded (got, want) differ: %r for AT %d min %s, SAVE %d s, years %d..%d, letter %r" %
                              (scope, diff, want["atSecondsTruncated"] // 60, want["atTimeSuffix"], want["deltaSecondsTruncated"],
                               want["fromYear"], want["toYear"], want["letter"]))


COMMENT_WS = re.compile(r"[ \t]+")


def canon_generated(text, ns_from, ns_to):
    """Token-level canonical form: drop the invocation header, collapse whitespace, unify the namespace."""
    out = []
    skip_lists = False
    for line in text.splitlines():
        s = line.strip()
        if s.startswith("//") and ("tzcompiler.py" in s):
            continue
        s = COMMENT_WS.sub(" ", s)
        s = s.replace(ns_from, ns_to).replace(ns_from.upper(), ns_to.upper())
        if not s:
            continue
        out.append(s)
    return out


def strip_unsupported_lists(lines):
    """The 'Unsupported ...' / 'Notable ...' comment blocks depend on the complete original source (not reconstructible)."""
    out = []
    skipping = False
    for s in lines:
        if s.startswith("// Unsupported") or s.startswith("// Notable") or s.startswith("// Removed") or s.startswith("// Unused"):
            skipping = True
            continue
        if skipping:
            if s.startswith("//"):
                continue
            skipping = False
        out.append(s)
    return out


_NOPROGMEM = []


def noprogmem_repo():
    """a copy of src/ with ACE_TIME_USE_PROGMEM set to 0 in common/compat.h"""
    if _NOPROGMEM:
        return _NOPROGMEM[0]
    import shutil
    alt = os.path.join(vt.build_dir("C12"), "altrepo")
    if os.path.exists(alt):
        shutil.rmtree(alt)
    shutil.copytree(os.path.join(vt.REPO, "src"), os.path.join(alt, "src"))
    cp = os.path.join(alt, "src", "ace_time", "common", "compat.h")
    txt = open(cp).read()
    if "#define ACE_TIME_USE_PROGMEM 1" not in txt:
        raise vt.HarnessError("compat.h no longer defines ACE_TIME_USE_PROGMEM 1")
    open(cp, "w").write(txt.replace("#define ACE_TIME_USE_PROGMEM 1", "#define ACE_TIME_USE_PROGMEM 0"))
    _NOPROGMEM.append(alt)
    return alt


def run(ctx):
    ctx.assumptions = ["(a) the generator's encoders are driven through ArduinoGenerator.generate_files on synthetic TzDb dictionaries; the "
                       "decoded side is the library's own brokers (dumpdb driver)",
                       "(b) shipped tables are compared with tzcompiler.py run on the source reconstructed from the recorded raw lines; "
                       "ignored: invocation header, whitespace, and the unsupported/notable/unused lists",
                       "single-character LETTER values are limited to [A-Za-z0-9+-^_] (quote and backslash would not be valid C++ "
                       "character literals; they do not occur in TZ data)"]
    work = vt.build_dir("C12")
    nt = set()
    # ---------------- (a) field round trip ----------------
    for scope, ns in (("extended", "sx"), ("basic", "sb")):
        for part in range(3):
            tzdb, exp = synth(scope, part)
            out = os.path.join(work, "syn_%s_%d" % (scope, part))
            try:
                generate(tzdb, out, ns)
            except Exception as e:
                ctx.violation("generator-exception:%s" % scope, {"scope": scope, "part": part, "error": repr(e)},
                              "ArduinoGenerator raised on admissible values (%s part %d): %r" % (scope, part, e))
                continue
            try:
                exe = compilelib.build_with_generated("C12", "dump_%s_%d" % (scope, part), "dumpdb.cpp",
                                                      x_out=out if scope == "extended" else None, x_ns=ns,
                                                      b_out=out if scope == "basic" else None, b_ns=ns, opt="-O0")
            except vt.HarnessError as e:
                msg = str(e)
                m = re.search(r"error: ([^\n]*)", msg)
                key = "generated-table-does-not-compile:%s:%s" % (scope, re.sub(r"\d+", "N", m.group(1))[:60] if m else "?")
                ctx.violation(key, {"scope": scope, "part": part, "compiler": msg[-1500:]},
                              "the generated %s table for admissible values does not compile: %s" % (scope, m.group(1) if m else msg[-300:]))
                # retry without the offsets whose minute remainder does not fit (counted) so the rest is still checked
                dropped = 0
                for zname, eras in list(tzdb["zones_map"].items()):
                    keep = []
                    for e in eras:
                        if scope == "extended" and (e["offsetSecondsTruncated"] % 900) // 60 >= 8:
                            dropped += 1
                            exp_keys = [k for k in exp if k[0] == "era" and k[1] == zname]
                            continue
                        keep.append(e)
                    tzdb["zones_map"][zname] = keep
                    for k in [k for k in exp if k[0] == "era" and k[1] == zname]:
                        del exp[k]
                    for j, e in enumerate(keep):
                        exp[("era", zname, j)] = e
                ctx.count("eras_excluded_minute_remainder_ge_8", dropped)
                generate(tzdb, out, ns)
                exe = compilelib.build_with_generated("C12", "dump_%s_%d_r" % (scope, part), "dumpdb.cpp",
                                                      x_out=out if scope == "extended" else None, x_ns=ns,
                                                      b_out=out if scope == "basic" else None, b_ns=ns, opt="-O0")
            rc, o, err = vt.run_exe(exe, [], timeout=600)
            if rc != 0:
                ctx.violation("dump-crash:%s" % scope, {"scope": scope}, "decoding the synthetic %s table crashed: %s" % (scope, (err or "")[-500:]))
                continue
            compare(ctx, scope, dblib.parse_dump(o), exp, nt)
            ctx.count("synthetic_%s_values" % scope, len(exp))
            # the other documented build configuration (ACE_TIME_USE_PROGMEM 0 selects the second set of broker accessors)
            if part == 0 or ctx.tier == "thorough":
                try:
                    exe2 = compilelib.build_with_generated("C12", "dump_%s_%d_np" % (scope, part), "dumpdb.cpp",
                                                           x_out=out if scope == "extended" else None, x_ns=ns,
                                                           b_out=out if scope == "basic" else None, b_ns=ns, opt="-O0", repo=noprogmem_repo())
                except vt.HarnessError as e:
                    ctx.violation("noprogmem-does-not-compile:%s" % scope, {"scope": scope, "part": part, "compiler": str(e)[-1200:]},
                                  "the library does not build with ACE_TIME_USE_PROGMEM 0 against the generated %s table" % scope)
                    continue
                rc, o, err = vt.run_exe(exe2, [], timeout=600)
                if rc != 0:
                    ctx.violation("dump-crash-noprogmem:%s" % scope, {"scope": scope}, "decoding the synthetic %s table crashed in the ACE_TIME_USE_PROGMEM=0 build: %s" % (scope, (err or "")[-500:]))
                    continue
                compare(ctx, scope + "-noprogmem", dblib.parse_dump(o), exp, nt)
                ctx.count("synthetic_%s_values_noprogmem" % scope, len(exp))
    # ---------------- (b) shipped tables == generator(source lines) ----------------
    shipped = dblib.dump_shipped("C12")
    for scope, dbdir, letter in (("extended", "zonedbx", "x"), ("basic", "zonedb", "b")):
        src, zones, links = tzoracle.reconstruct_source(dbdir)
        r = compilelib.compile_source(work, "re_" + scope, src, scope, "arduino", db_namespace=dbdir + "_regen", actions="zonedb")
        if r["rc"] != 0:
            ctx.violation("regen-failed:" + scope, {"log": r["log"][-1500:]}, "tzcompiler.py failed on the reconstructed %s source: %s" % (scope, r["log"][-600:]))
            continue
        for f in ("zone_infos.h", "zone_infos.cpp", "zone_policies.h", "zone_policies.cpp", "zone_registry.h", "zone_registry.cpp"):
            a = strip_unsupported_lists(canon_generated(open(os.path.join(r["outdir"], f)).read(), dbdir + "_regen", dbdir))
            b = strip_unsupported_lists(canon_generated(open(os.path.join(vt.REPO, "src/ace_time", dbdir, f)).read(), dbdir + "_REGEN", dbdir))
            ctx.evaluations += len(b)
            if a != b:
                import difflib
                d = [l for l in difflib.unified_diff(b, a, "shipped", "regenerated", lineterm="", n=1)][:14]
                ctx.violation("shipped-differs:%s:%s" % (dbdir, f), {"file": dbdir + "/" + f, "diff": d},
                              "shipped %s/%s is not what the generator produces from the recorded lines:\n%s" % (dbdir, f, "\n".join(d)))
        # value level: decoded shipped == decoded regenerated
        exe = compilelib.build_with_generated("C12", "dump_re_" + scope, "dumpdb.cpp",
                                              x_out=r["outdir"] if scope == "extended" else None, x_ns=dbdir + "_regen",
                                              b_out=r["outdir"] if scope == "basic" else None, b_ns=dbdir + "_regen", opt="-O0")
        rc, o, err = vt.run_exe(exe, [], timeout=600)
        if rc != 0:
            ctx.violation("regen-dump-crash:" + scope, {}, "decoding the regenerated table crashed")
            continue
        regen = dblib.parse_dump(o)

        def strip(z):
            z = dict(z)
            z.pop("addr", None)
            return z
        A = [strip(z) for z in shipped["zones"][letter]]
        B = [strip(z) for z in regen["zones"][letter]]
        for za, zb in zip(A, B):
            ctx.evaluations += 1 + len(za["eras"])
            nt.add(("shipped", scope, za["name"]))
            if za != zb:
                ctx.violation("shipped-values:%s:%s" % (dbdir, za["name"]), {"db": dbdir, "zone": za["name"]},
                              "decoded shipped %s entry %s differs from the regenerated one: shipped %s regenerated %s" %
                              (dbdir, za["name"], json.dumps(za)[:400], json.dumps(zb)[:400]))
        if len(A) != len(B):
            ctx.violation("shipped-count:" + dbdir, {}, "%s: %d shipped zones, %d regenerated" % (dbdir, len(A), len(B)))
    ctx.nontrivial = len(nt)
    ctx.exhaustive = True
    ctx.sample({"encoded_era": {"offset_s": -17760, "save_s": -3600, "until_min": 1439, "suffix": "s"}, "read_back_via": "extended::ZoneEraBroker"})
    ctx.sample({"encoded_rule": {"at_min": 1500, "suffix": "u", "save_s": 9900, "letter": "LT07"}, "read_back_via": "ZoneRuleBroker / ZonePolicyBroker.letter"})
    ctx.rule = ("(a) exhaustive product per field through ArduinoGenerator.generate_files -> clang -> brokers: AT/UNTIL 0..1500 min x {w,s,u} "
                "(4,503 in rule and in era position), STDOFF -16:00..+16:00 to the minute (extended) / 15-minute multiples (basic), SAVE "
                "-1:00..+2:45 step 15 min in rule and era position, years {min, 1873..2126, max} and UNTIL year incl. 10000, 66 single "
                "letters and policies with 1..31 multi-character letters, both scopes; (b) every shipped file vs tzcompiler on the "
                "reconstructed source (token level) and decoded-value equality per zone. Non-trivial = values with a minute remainder, a "
                "negative offset or SAVE, a boundary year or a multi-character letter + shipped zones compared")


if __name__ == "__main__":
    vt.main("C12", run)
