"""C01 - Extended zones: offset, DST flag, abbreviation equal zic at every instant; fields shifted."""
import json
import os

import sweeplib
import tzoracle
import vt
import zonecheck
from checks_common import finish_zone_results


def run(ctx, db="x", dbdir="zonedbx", prop="C01"):
    ctx.assumptions = [
        "glibc zic/zdump and CPython zoneinfo (cross-checked against each other on both sides of every "
        "transition) define 'what zic derives'",
        "the TZ source is reconstructed from the raw Zone/Rule lines recorded as comments beside every "
        "table entry (their link to the table values is property C12)",
        "host build with the /verif shim; -O2",
    ]
    exe = sweeplib.build_sweep(prop)
    zones = sweeplib.list_zones(exe, db)
    src, src_zones, links = tzoracle.reconstruct_source(dbdir)
    odir = sweeplib.scratch_dir(prop, "zic")
    ok, err = tzoracle.zic_compile(src, odir)
    if not ok:
        raise vt.HarnessError("zic rejected the reconstructed source: " + err[:2000])
    thorough = ctx.tier == "thorough"
    stride = 1 if thorough else 60
    only = None
    if ctx.replay:
        r = json.load(open(ctx.replay))["replay"]
        only = r["zone"]
    jobs = []
    for zi, z in enumerate(zones):
        if only and z != only:
            continue
        jobs.append(dict(exe=exe, db=db, zi=zi, zone=z, odir=odir, t0=sweeplib.T0, t1=sweeplib.T1,
                         stride=stride, radius=0 if thorough else 120,
                         nprobe=2000 if thorough else 300, seed=ctx.seed))
    results = vt.pmap(zonecheck.check_zone, jobs)
    finish_zone_results(ctx, results, db)


if __name__ == "__main__":
    vt.main("C01", run)
