"""C06 - calendar and epoch arithmetic is proleptic Gregorian and bijective."""
import calendar
import datetime as dtm
import random
import sys

import vt

EPOCH = dtm.date(2000, 1, 1)
EPOCH_DT = dtm.datetime(2000, 1, 1)
I32MIN, I32MAX = -2**31, 2**31 - 1


def real_date(y, m, d):
    try:
        return dtm.date(y, m, d)
    except ValueError:
        return None


def check_dates(ctx, out):
    n = 0
    seen_special = set()
    for line in out.splitlines():
        f = line.split()
        if not f:
            continue
        if f[0] == "X" or f[0] == "Y":
            n += 1
            if any(x != "1" for x in f[1:]):
                ctx.violation("sentinel-not-error", {"line": line},
                              "error sentinel did not give an error value: " + line)
            continue
        if f[0] != "D":
            raise vt.HarnessError("unexpected driver line: " + line)
        y, m, d, err = int(f[1]), int(f[2]), int(f[3]), int(f[4])
        n += 1
        rd = real_date(y, m, d) if (1 <= m <= 12 and 1 <= d <= 31) else None
        in_doc_range = (1873 <= y <= 2127 and 1 <= m <= 12 and 1 <= d <= 31)
        key = "date:%04d-%02d-%02d" % (y, m, d)
        if not in_doc_range:
            ctx.count("invalid_components")
            if not err:
                ctx.violation(key, {"ymd": [y, m, d]}, "invalid components %s not flagged by isError" % key)
            elif f[5] != "E" or int(f[6]) != I32MIN or int(f[7]) != I32MIN:
                ctx.violation(key, {"ymd": [y, m, d]}, "error date does not convert to the sentinel: " + line)
            continue
        if rd is None:
            # Feb 30, Apr 31...: documented as not detected (day <= 31); unconstrained
            ctx.count("non_calendar_day_unconstrained")
            continue
        if err:
            ctx.violation(key, {"ymd": [y, m, d]}, "valid date %s flagged as error" % key)
            continue
        (ed, dow, dim, leap, ud, yr, berr, by, bm, bd, iy, im, idd, dy, dm, dd, uy, um, udd) = \
            [int(x) for x in f[5:24]]
        want_days = (rd - EPOCH).days
        problems = []
        if ed != want_days:
            problems.append("toEpochDays=%d want %d" % (ed, want_days))
        if ud != want_days + 10957:
            problems.append("toUnixDays=%d want %d" % (ud, want_days + 10957))
        if yr != y:
            problems.append("year()=%d" % yr)
        if dow != rd.isoweekday():
            problems.append("dayOfWeek=%d want %d" % (dow, rd.isoweekday()))
        if dim != calendar.monthrange(y, m)[1]:
            problems.append("daysInMonth=%d want %d" % (dim, calendar.monthrange(y, m)[1]))
        if leap != int(calendar.isleap(y)):
            problems.append("isLeapYear=%d" % leap)
        if berr or (by, bm, bd) != (y, m, d):
            problems.append("forEpochDays(toEpochDays)=%d-%d-%d err=%d" % (by, bm, bd, berr))
        if (uy, um, udd) != (y, m, d):
            problems.append("forUnixDays(toUnixDays)=%d-%d-%d" % (uy, um, udd))
        if dtm.date(1873, 1, 1) <= rd <= dtm.date(2127, 12, 30):
            nx = rd + dtm.timedelta(days=1)
            if (iy + 2000, im, idd) != (nx.year, nx.month, nx.day):
                problems.append("incrementOneDay -> %d-%d-%d want %s" % (iy + 2000, im, idd, nx))
        if dtm.date(1873, 1, 2) <= rd <= dtm.date(2127, 12, 31):
            pv = rd - dtm.timedelta(days=1)
            if (dy + 2000, dm, dd) != (pv.year, pv.month, pv.day):
                problems.append("decrementOneDay -> %d-%d-%d want %s" % (dy + 2000, dm, dd, pv))
        if f[24] != "S":
            raise vt.HarnessError("bad driver line " + line)
        if f[25] != "-":
            es, sy, sm, sd = [int(x) for x in f[25:29]]
            if es != want_days * 86400:
                problems.append("toEpochSeconds=%d want %d" % (es, want_days * 86400))
            if (sy, sm, sd) != (y, m, d):
                problems.append("LocalDate::forEpochSeconds -> %d-%d-%d" % (sy, sm, sd))
        if problems:
            ctx.violation(key, {"ymd": [y, m, d], "driver_line": line}, key + ": " + "; ".join(problems))
        ctx.count("valid_dates")
        special = (m == 2 and d >= 28) or (m == 12 and d == 31) or (m == 1 and d == 1) or (y % 100 == 0) \
            or d == calendar.monthrange(y, m)[1]
        if special:
            seen_special.add((y, m, d))
        if (y, m, d) in ((1900, 2, 28), (2000, 2, 29), (2100, 3, 1), (1873, 1, 1), (2127, 12, 31)):
            ctx.sample({"date": key, "toEpochDays": ed, "dayOfWeek": dow, "inc": [iy + 2000, im, idd]})
    return n, len(seen_special)


def run(ctx):
    ctx.assumptions = [
        "CPython datetime/calendar implement the proleptic Gregorian calendar",
        "host build (int = 32 bit) with the /verif/shim stand-ins; -O2, no sanitizer (C09 covers UB)",
        "the in-driver days-from-civil oracle is re-validated against datetime on a random sample each run",
    ]
    exe = vt.build("C06", "c06", ["c06.cpp"], with_db=False)
    if ctx.replay:
        import json
        r = json.load(open(ctx.replay))["replay"]
        if "ymd" in r:
            rc, out, err = vt.run_exe(exe, ["dates"])
            y, m, d = r["ymd"]
            lines = [l for l in out.splitlines() if l.startswith("D %d %d %d " % (y, m, d))]
            check_dates(ctx, "\n".join(lines))
        elif "epoch" in r:
            rc, out, err = vt.run_exe(exe, ["epoch", r["epoch"], r["epoch"] + 1, 1])
            handle_epoch_output(ctx, out)
        return
    # ---- 1. all dates (exhaustive) ----
    rc, out, err = vt.run_exe(exe, ["dates"], timeout=600)
    if rc != 0:
        ctx.violation("crash-dates", {"mode": "dates", "rc": rc}, "driver crashed in dates mode rc=%s\n%s" % (rc, err[-1500:]))
        out = out or ""
    n, special = check_dates(ctx, out)
    if ctx.hist.get("valid_dates", 0) != 93136 and not ctx.violations:
        raise vt.HarnessError("expected 93136 valid dates, saw %s" % ctx.hist.get("valid_dates"))
    ctx.evaluations += n
    ctx.nontrivial += special
    # ---- 1b. dates changed through their setters vs freshly built dates ----
    rc, out, err = vt.run_exe(exe, ["setters"], timeout=600)
    if rc != 0:
        ctx.violation("crash-setters", {"mode": "setters"}, "driver crashed in setters mode rc=%s\n%s" % (rc, err[-1500:]))
    for line in (out or "").splitlines():
        if line.startswith("MISMATCH"):
            ctx.violation("setter:" + line.split()[2], {"line": line}, "a date changed through a setter reports something else than a freshly built one: " + line)
        elif line.startswith("SETTERS"):
            kv = dict(x.split("=") for x in line.split()[1:])
            ctx.evaluations += int(kv["n"])
            ctx.nontrivial += int(kv["n"])
            ctx.count("setter_histories", int(kv["n"]))
    # ---- 2. all 2^24 time triples ----
    rc, out, err = vt.run_exe(exe, ["times"], timeout=600)
    if rc != 0:
        ctx.violation("crash-times", {"mode": "times"}, "driver crashed in times mode rc=%s\n%s" % (rc, err[-1500:]))
    tn = 0
    for line in (out or "").splitlines():
        if line.startswith("MISMATCH"):
            f = line.split()
            ctx.violation("time:%s:%s:%s" % (f[2], f[3], f[4]), {"hms": [int(f[2]), int(f[3]), int(f[4])]}, line)
        elif line.startswith("TIMES"):
            kv = dict(x.split("=") for x in line.split()[1:])
            if int(kv["n"]) != 2**24 or int(kv["valid"]) != 86401:
                raise vt.HarnessError("times sweep incomplete: " + line)
            ctx.evaluations += int(kv["n"])
            ctx.count("time_triples", int(kv["n"]))
            ctx.count("valid_time_triples", int(kv["valid"]))
            if int(kv["bad"]) > 20:
                ctx.violation("time:many", {"bad": kv["bad"]}, line)
        elif line.startswith("T "):
            v, h, m, s, e, back = [int(x) for x in line.split()[1:]]
            tn += 1
            if (h, m, s) != (v // 3600, v // 60 % 60, v % 60) or e or back != v:
                ctx.violation("forSeconds:%d" % v, {"seconds": v}, "LocalTime::forSeconds(%d) -> %s" % (v, line))
    if tn != 86400:
        raise vt.HarnessError("forSeconds table incomplete: %d" % tn)
    ctx.evaluations += tn
    ctx.nontrivial += 60 * 24  # :59 seconds of every minute (minute roll-over points), all checked
    # ---- 3. validate the in-driver oracle against datetime ----
    rnd = random.Random(ctx.seed)
    pts = [rnd.randint(I32MIN + 1, I32MAX) for _ in range(20000)]
    pts += [I32MIN + 1, I32MAX, -1, 0, 1, 86399, 86400, -86400, -86401, 951782400 - 946684800]
    for chunk in range(0, len(pts), 5000):
        part = pts[chunk:chunk + 5000]
        rc, out, err = vt.run_exe(exe, ["oracle"] + part)
        rc2, out2, err2 = vt.run_exe(exe, ["fields"] + part)
        lib = {}
        for line in out2.splitlines():
            f = [int(x) for x in line.split()[1:]]
            lib[f[0]] = f[1:]
        for line in out.splitlines():
            f = [int(x) for x in line.split()[1:]]
            want = EPOCH_DT + dtm.timedelta(seconds=f[0])
            if tuple(f[1:]) != (want.year, want.month, want.day, want.hour, want.minute, want.second):
                raise vt.HarnessError("in-driver oracle disagrees with datetime at %d: %s" % (f[0], line))
            # independent comparison of the library with datetime on the same points
            g = lib[f[0]]
            ctx.evaluations += 1
            if tuple(g[:6]) != tuple(f[1:]) or g[6] != 0 or g[7] != f[0] or g[8] != want.isoweekday():
                ctx.violation("epoch:%d" % f[0], {"epoch": f[0]},
                              "forEpochSeconds(%d) fields %s, want %s dow %d" % (f[0], g, want, want.isoweekday()))
    ctx.sample({"epoch": part[0], "library_fields": lib[part[0]]})
    # ---- 4. epoch-seconds sweep ----
    jobs = [[exe, "bounds"]]
    if ctx.tier == "thorough":
        step = 2**32 // 64
        for i in range(64):
            lo = I32MIN + i * step
            hi = I32MIN + (i + 1) * step if i < 63 else I32MAX + 1
            jobs.append([exe, "epoch", lo, hi, 1])
        ctx.exhaustive = True
    else:
        stride = 9973
        phase = ctx.seed % stride
        step = 2**32 // 16
        for i in range(16):
            lo = I32MIN + i * step
            lo = lo + ((phase - lo) % stride)
            hi = I32MIN + (i + 1) * step if i < 15 else I32MAX + 1
            jobs.append([exe, "epoch", lo, hi, stride])
    results = vt.pmap(_run_job, jobs)
    for (rc, out, err), job in zip(results, jobs):
        if rc != 0:
            ctx.violation("crash-epoch", {"job": job[1:]}, "driver crashed rc=%s in %s\n%s" % (rc, job[1:], err[-1500:]))
        handle_epoch_output(ctx, out)
    ctx.rule = ("exhaustive: all (y,m,d) in [1872..2128]x[0..13]x[0..32] incl. all 93,136 real dates vs "
                "datetime/calendar; all 2^24 (h,m,s) triples; all 86,400 forSeconds values; epoch seconds: "
                + ("all 2^32-1 values" if ctx.tier == "thorough" else
                   "stride 9973 (phase = seed) + every day boundary +-2 s + 200 values at each int32 limit")
                + " vs an in-driver days-from-civil oracle re-validated against datetime on 20,010 points. "
                "Non-trivial = distinct month ends / Feb 28-29 / Jan 1 / Dec 31 / century-year dates, minute "
                "roll-over seconds, and epoch values that are negative, a leap day or the last second of a day")


def _run_job(job):
    return vt.run_exe(job[0], job[1:], timeout=3600)


def handle_epoch_output(ctx, out):
    for line in (out or "").splitlines():
        if line.startswith("MISMATCH"):
            e = int(line.split()[2])
            ctx.violation("epoch:%d" % e, {"epoch": e}, line)
        elif line.startswith("EPOCH"):
            kv = dict(x.split("=") for x in line.split()[1:] if "=" in x)
            ctx.evaluations += int(kv["n"])
            ctx.nontrivial += int(kv["nontrivial"])
            ctx.count("epoch_values", int(kv["n"]))
            if int(kv["bad"]) > 20:
                ctx.violation("epoch:many", {"line": line}, line)


if __name__ == "__main__":
    vt.main("C06", run)
