"""C04 - Python ZoneSpecifier and C++ ExtendedZoneProcessor are observationally equal; Python options irrelevant."""
import bisect
import datetime as dtm
import itertools
import json
import os
import random

import dblib
import sweeplib
import tzoracle
import vt

EPOCH_DT = dtm.datetime(2000, 1, 1)
SUFFIX = {0x00: "w", 0x10: "s", 0x20: "u"}
ALL_OPTS = [dict(viewing_months=vm, optimize_candidates=oc, in_place_transitions=ip)
            for vm in (14, 13) for oc in (True, False) for ip in (True, False)]


def to_python_info(z):
    """dumpdb JSON (as decoded by the C++ brokers) -> the Python ZoneInfo dict model."""
    policies = {}
    eras = []
    for e in z["eras"]:
        pol = e["policy"]
        if pol is None:
            zp = "-" if e["deltaMinutes"] == 0 else ":"
        else:
            key = json.dumps(pol, sort_keys=True)
            if key not in policies:
                rules = []
                for r in pol["rules"]:
                    fy = r["fromYearTiny"] + 2000
                    ty = r["toYearTiny"] + 2000
                    rules.append({"fromYear": 0 if r["fromYearTiny"] == -127 else fy,
                                  "toYear": 9999 if r["toYearTiny"] == 126 else (0 if r["toYearTiny"] == -127 else ty),
                                  "inMonth": r["inMonth"], "onDayOfWeek": r["onDayOfWeek"], "onDayOfMonth": r["onDayOfMonth"],
                                  "atSeconds": r["atTimeMinutes"] * 60, "atTimeSuffix": SUFFIX[r["atTimeSuffix"]],
                                  "deltaSeconds": r["deltaMinutes"] * 60, "letter": r["letter"]})
                policies[key] = {"name": "P%d" % len(policies), "rules": rules}
            zp = policies[key]
        eras.append({"offsetSeconds": e["offsetMinutes"] * 60, "zonePolicy": zp, "rulesDeltaSeconds": e["deltaMinutes"] * 60 if pol is None else 0,
                     "format": e["format"].replace("%", "%s"), "untilYear": 10000 if e["untilYearTiny"] == 127 else e["untilYearTiny"] + 2000,
                     "untilMonth": e["untilMonth"], "untilDay": e["untilDay"], "untilSeconds": e["untilTimeMinutes"] * 60,
                     "untilTimeSuffix": SUFFIX[e["untilTimeSuffix"]]})
    return {"name": z["name"], "eras": eras}


def lib_at(segs, starts, t):
    return segs[bisect.bisect_right(starts, t) - 1][1:]


def py_info(zs, t):
    try:
        i = zs.get_timezone_info_for_seconds(t)
        return (i.total_offset, i.dst_offset, i.abbrev)
    except BaseException as e:          # sys.exit() inside the reference implementation counts as disagreement
        return ("EXC", type(e).__name__, str(e)[:80])


def py_local(zs, w):
    """The offset the Python side selects for wall time w (seconds since 2000-01-01 local), normalised like the C++:
    epoch = wall - offset, then the offset in force at that epoch."""
    d = EPOCH_DT + dtm.timedelta(seconds=w)
    try:
        tr = zs.get_transition_for_datetime(d)
        if tr is None:
            return ("NONE",)
        off = tr.offsetSeconds + tr.deltaSeconds
        e = w - off
        i = zs.get_timezone_info_for_seconds(e)
        return (off, i.total_offset)
    except BaseException as ex:
        return ("EXC", type(ex).__name__, str(ex)[:80])


def zone_job(a):
    from zonedb.zone_specifier import ZoneSpecifier
    exe, zi, z, seed, tier, all_opts = a["exe"], a["zi"], a.get("z"), a["seed"], a["tier"], a["all_opts"]
    name = a.get("name") or z["name"]
    res = {"zone": name, "fails": [], "evaluations": 0, "nt_years": 0, "nt_wall": 0, "samples": [], "hist": {}}

    def fail(kind, detail):
        if len(res["fails"]) < 6:
            res["fails"].append({"kind": kind, "detail": detail})

    # the Python-side data: either the tables as decoded by the C++ brokers (shipped database) or the in-memory tables the
    # compiler produced from the same source as the C++ tables under test (freshly compiled source)
    try:
        info = a.get("info") or to_python_info(z)
    except KeyError as e_:
        # the brokers returned a value outside the encoding's alphabet (e.g. a suffix byte that is none of w/s/u)
        fail("decode", {"where": "tables as decoded by the C++ brokers", "value": str(e_)})
        return res
    T0, T1 = a.get("t0", sweeplib.T0), a.get("t1", sweeplib.T1)
    Y0 = (EPOCH_DT + dtm.timedelta(seconds=T0)).year
    Y1 = (EPOCH_DT + dtm.timedelta(seconds=T1 - 1)).year + 1
    rc, out, err = vt.run_exe(exe, ["sweep", "x", zi, zi + 1, T0, T1, 60], timeout=3600)
    parsed = sweeplib.parse_sweep(out or "")
    if rc != 0 or name not in parsed:
        fail("crash", {"where": "sweep", "stderr": (err or "")[-500:]})
        return res
    segs = parsed[name]["segs"]
    starts = [s[0] for s in segs]
    changes = starts[1:]
    # ---------- instants ----------
    zs = ZoneSpecifier(info)
    inst = set()
    for t in changes:
        inst.update((t - 1, t, t + 1))
    for y in range(Y0, Y1):
        for m in range(1, 13):
            inst.add(tzoracle.t_of(y, m))
        inst.add(tzoracle.t_of(y + 1) - 1)
    pystarts = set()
    years_multi = 0
    for y in range(Y0, Y1):
        try:
            zs.init_for_year(y)
            if len(zs.transitions) >= 2:
                years_multi += 1
            for tr in zs.transitions:
                pystarts.add(tr.startEpochSecond)
        except BaseException as ex:
            fail("python-exception", {"year": y, "error": "%s: %s" % (type(ex).__name__, str(ex)[:100])})
    for t in pystarts:
        inst.update((t - 1, t, t + 1))
    inst = sorted(t for t in inst if T0 <= t < T1)
    res["nt_years"] = years_multi
    zs = ZoneSpecifier(info)
    for t in inst:
        lv = lib_at(segs, starts, t)
        want = (lv[0] * 60, lv[1] * 60, lv[2])
        got = py_info(zs, t)
        res["evaluations"] += 1
        if got != want:
            fail("instant", {"t": t, "utc": sweeplib.iso(t), "cpp": list(want), "python": list(got)})
            break
    if changes and not res["samples"]:
        t = changes[len(changes) // 2]
        res["samples"].append({"zone": name, "t": t, "utc": sweeplib.iso(t), "cpp": list(lib_at(segs, starts, t)), "python": list(py_info(zs, t))})
    # ---------- local date-times ----------
    rnd = random.Random("%s/%d" % (name, seed))
    wins = []
    lo_lim, hi_lim = T0 + 2 * 86400, T1 - 2 * 86400
    for i in range(1, len(segs)):
        c = segs[i][0] + segs[i - 1][1] * 60
        wins.append((c - 180 * 60, c + 180 * 60, 60))
    for _ in range(200):
        w = rnd.randrange(lo_lim, hi_lim)
        wins.append((w, w, 1))
    for y in range(Y0 + 1, Y1):
        t = tzoracle.t_of(y)
        wins.append((t - 3600, t + 3600, 60))
    wins = [((max(lo, lo_lim) // 60) * 60 if st == 60 else max(lo, lo_lim), min(hi, hi_lim), st) for lo, hi, st in wins
            if hi >= lo_lim and lo <= hi_lim]
    inp = "".join("W %d %d %d %d\n" % (zi, lo, hi, st) for lo, hi, st in wins)
    rc, out, err = vt.run_exe(exe, ["local", "x"], stdin=inp, timeout=3600)
    if rc != 0:
        fail("crash", {"where": "local", "stderr": (err or "")[-500:]})
        return res
    cur = None
    rles = []
    for line in out.splitlines():
        f = line.split()
        if f[0] == "W":
            cur = {"lo": int(f[2]), "hi": int(f[3]), "step": int(f[4]), "r": []}
            rles.append(cur)
        elif f[0] == "R":
            cur["r"].append((int(f[1]), int(f[2]), int(f[3])))
    zs = ZoneSpecifier(info)
    # breakpoints of the Python side: startDateTime of every transition, as wall epoch
    pbreaks = set()
    for y in range(Y0, Y1):
        try:
            zs.init_for_year(y)
            for tr in zs.transitions:
                sd = tr.startDateTime
                if sd.y >= 1:
                    pbreaks.add(int((dtm.datetime(sd.y, sd.M, sd.d) - EPOCH_DT).total_seconds()) + sd.ss)
        except BaseException:
            pass
    pbl = sorted(pbreaks)
    wall_cases = 0
    for win in rles:
        lo, hi, step = win["lo"], win["hi"], win["step"]
        rstarts = [r[0] for r in win["r"]]
        bps = set([lo]) | set(rstarts)
        i0 = bisect.bisect_left(pbl, lo)
        i1 = bisect.bisect_right(pbl, hi)
        bps.update(pbl[i0:i1])
        # Jan 1 (year cache change on the Python side)
        bl = sorted(bps)
        for k, b in enumerate(bl):
            end = bl[k + 1] if k + 1 < len(bl) else hi + 1
            w = b + ((lo - b) % step)
            if w >= end or w > hi:
                continue
            npts = (min(end, hi + 1) - 1 - w) // step + 1
            r = win["r"][bisect.bisect_right(rstarts, w) - 1]
            if r[2] & 1:
                cpp = ("ERR",)
            else:
                cpp = (r[1] // 100000, ((r[1] % 100000) - 20000) * 60)
            # both ends of the sub-interval (year boundary inside is a breakpoint too: evaluate both)
            for ww in (w, w + (npts - 1) * step):
                got = py_local(zs, ww)
                res["evaluations"] += 1
                wall_cases += 1
                if got != cpp and ww == w:
                    fail("local", {"wall": ww, "wall_iso": sweeplib.iso(ww)[:-1], "cpp_(chosen,final)": list(cpp), "python_(chosen,final)": list(got)})
                    break
            if len(res["fails"]) >= 6:
                break
    res["nt_wall"] = wall_cases
    # ---------- Python options ----------
    opts = ALL_OPTS if all_opts else [ALL_OPTS[0], ALL_OPTS[7]]
    ref = None
    ref_lists = {}
    for o in opts:
        zs = ZoneSpecifier(info, **o)
        answers = [py_info(zs, t) for t in inst]
        res["evaluations"] += len(inst)
        lists = []
        for y in range(Y0, Y1):
            try:
                zs.init_for_year(y)
                lists.append([(tr.startEpochSecond,) + tuple(tr.to_timezone_tuple()) for tr in zs.transitions])
            except BaseException as ex:
                lists.append(["EXC %s" % type(ex).__name__])
        locs = []
        zs2 = ZoneSpecifier(info, **o)
        for t in changes[:60]:
            for dw in (-3600, -1, 0, 1, 3600):
                w = t + lib_at(segs, starts, t - 1)[0] * 60 + dw
                if lo_lim <= w <= hi_lim:
                    locs.append((w, py_local(zs2, w)))
        res["evaluations"] += len(locs)
        key = (o["viewing_months"],)
        if ref is None:
            ref = (o, answers, locs)
        else:
            for t, a_, b_ in zip(inst, ref[1], answers):
                if a_ != b_:
                    fail("options-instant", {"t": t, "utc": sweeplib.iso(t), "options_a": ref[0], "a": list(a_), "options_b": o, "b": list(b_)})
                    break
            for (w, a_), (_, b_) in zip(ref[2], locs):
                if a_ != b_:
                    fail("options-local", {"wall": w, "wall_iso": sweeplib.iso(w)[:-1], "options_a": ref[0], "a": list(a_), "options_b": o, "b": list(b_)})
                    break
        if key in ref_lists:
            if ref_lists[key][1] != lists:
                y = next(i for i in range(len(lists)) if ref_lists[key][1][i] != lists[i])
                fail("options-transitions", {"year": Y0 + y, "options_a": ref_lists[key][0], "a": ref_lists[key][1][y][:6],
                                             "options_b": o, "b": lists[y][:6]})
        else:
            ref_lists[key] = (o, lists)
    res["hist"]["option_sets"] = len(opts)
    # ---------- history independence of the Python implementation ----------
    # (a) local date-times on Jan 1 / Dec 31 asked while the cache holds that year (after a mid-year query), per window size
    for o in (ALL_OPTS[0], ALL_OPTS[4]):
        zs = ZoneSpecifier(info, **o)
        for y in range(Y0 + 1, Y1 - 1):
            py_info(zs, tzoracle.t_of(y, 7, 1))
            for w in (tzoracle.t_of(y), tzoracle.t_of(y) + 1800, tzoracle.t_of(y + 1) - 1800):
                a_ = py_local(zs, w)
                b_ = py_local(ZoneSpecifier(info, **o), w)
                res["evaluations"] += 1
                if a_ != b_:
                    fail("python-history", {"wall": w, "wall_iso": sweeplib.iso(w)[:-1], "options": o, "long_lived": list(a_), "fresh": list(b_),
                                            "before": "instant %d-07-01 then this wall time" % y})
                    break
                py_info(zs, tzoracle.t_of(y, 7, 1))
    # (b) two specifiers alive at the same time must not influence each other (each keeps its own cache)
    zs1, zs2 = ZoneSpecifier(info), ZoneSpecifier(info, viewing_months=13)
    for _ in range(10):
        y1, y2 = rnd.randrange(Y0, Y1), rnd.randrange(Y0, Y1)
        py_info(zs1, tzoracle.t_of(y1, 7, 1))
        py_info(zs2, tzoracle.t_of(y2, 3, 1))
        t = tzoracle.t_of(y1, 11, 1)
        a_ = py_info(zs1, t)                       # same year as zs1's previous query: answered from its cache
        b_ = py_info(ZoneSpecifier(info), t)
        res["evaluations"] += 1
        if a_ != b_:
            fail("python-history", {"t": t, "utc": sweeplib.iso(t), "long_lived": list(a_), "fresh": list(b_),
                                    "before": "specifier 1 asked %d-07-01, a second specifier asked %d-03-01, specifier 1 asked again" % (y1, y2)})
            break
    zs = ZoneSpecifier(info)
    ys = [rnd.randrange(Y0, Y1) for _ in range(12)]
    for y in ys:
        t = tzoracle.t_of(y, 1 + rnd.randrange(12), 1 + rnd.randrange(28), rnd.randrange(24))
        a_ = py_info(zs, t)
        b_ = py_info(ZoneSpecifier(info), t)
        res["evaluations"] += 1
        if a_ != b_:
            fail("python-history", {"t": t, "long_lived": list(a_), "fresh": list(b_), "years_before": ys})
            break
    return res


SECONDS_SOURCE = (
    "Zone\tAfrica/Monrovia\t-0:43:08\t-\tLMT\t1882\n\t\t\t-0:43:08\t-\tMMT\t1919\tMar\n"
    "\t\t\t-0:44:30\t-\tMMT\t1972\tJan\t7\n\t\t\t0:00\t-\tGMT\n"
    "Rule\tPX\t1960\tmax\t-\tApr\tSun>=1\t2:00:30\t1:00\tD\nRule\tPX\t1960\tmax\t-\tOct\tlastSun\t2:00\t0\tS\n"
    "Zone\tTest/Seconds\t5:17:20\t-\tLMT\t1950\n\t\t\t5:17:20\tPX\tT%sT\t1985\n\t\t\t5:00\tPX\tT%sT\n"
    "Rule\tPY\t1960\tmax\t-\tApr\tSun>=1\t2:00\t1:00\tD\nRule\tPY\t1960\tmax\t-\tOct\tlastSun\t2:00\t0\tS\n"
    "Zone\tTest/Odd\t2:07:00\t-\tLMT\t1950\n\t\t\t2:07\tPY\tSAST\n")


def compile_fresh(ctx, label, src, sy, uy, pick, all_opts, singles=None):
    """Compile `src` (extended scope) to C++ tables and, in-process, to the Python in-memory tables; -> [(zone_job args, meta)].
    `pick(names)` selects the zones to evaluate; `singles` maps a zone name to the small source it came from (for replays)."""
    import c03lib
    import compilelib
    work = vt.build_dir("C04")
    ns = "f" + "".join(c for c in label if c.isalnum())[:8]
    r = compilelib.compile_source(work, "fresh_" + label, src, "extended", "arduino", db_namespace=ns, start_year=sy, until_year=uy,
                                  tz_version=label)
    if r["rc"] != 0:
        raise vt.HarnessError("tzcompiler.py failed on the %s source (C03 decides whether that is a defect): %s" % (label, r["log"][-600:]))
    p = c03lib.pipeline(r["indir"], "extended", sy, uy)
    exe = compilelib.build_with_generated("C04", "sweep_fresh_" + label, "sweep.cpp", x_out=r["outdir"], x_ns=ns)
    listed = sweeplib.list_zones(exe, "x")
    if sorted(listed) != sorted(p["infos"]):
        ctx.violation("fresh:%s:zone-sets-differ" % label, {"source": src if len(src) < 20000 else None, "start_year": sy, "until_year": uy},
                      "freshly compiled %s: the C++ registry and the Python tables list different zones: %r" %
                      (label, sorted(set(listed) ^ set(p["infos"]))[:10]))
    names = [z for z in listed if z in p["infos"]]
    chosen = set(pick(names)) if pick else set(names)
    out = []
    for zi, z in enumerate(listed):
        if z in chosen:
            single = singles(z) if singles else (src if len(src) < 20000 else None)
            out.append((dict(exe=exe, zi=zi, name=z, info=p["infos"][z], t0=tzoracle.t_of(sy), t1=tzoracle.t_of(uy), seed=ctx.seed,
                             tier=ctx.tier, all_opts=all_opts),
                        {"label": label, "source": single, "sy": sy, "uy": uy}))
    return out


def fresh_jobs(ctx, thorough, rnd):
    """Freshly compiled sources (the property's second data domain): the real 2025b release for 1995..2040, enumerated and
    Hypothesis-drawn small sources for 2000..2050, a source with second-resolution offsets for 1965..2000."""
    import hypothesis
    from hypothesis import given, settings, strategies as st, Phase, HealthCheck
    import re
    import tzexpand
    import tzgen
    out = []
    long, stats, kept = tzexpand.expand(open(os.path.join(vt.VERIF, "tzsrc", "2025b", "tzdata.zi")).read())
    out += compile_fresh(ctx, "real2025b", long, 1995, 2040, (lambda n: n) if thorough else (lambda n: rnd.sample(n, 40)), thorough)
    objs = tzgen.systematic_sources(False)
    if not thorough:
        # always the sources whose abbreviations have the maximal length (the two implementations size their buffers separately)
        keep = [o for o in objs if "six-character" in o["label"] or "slash-format" in o["label"]]
        objs = keep + rnd.sample([o for o in objs if o not in keep], 110 - len(keep))
    drawn = []

    @hypothesis.seed(ctx.seed)
    @settings(max_examples=300 if thorough else 40, deadline=None, database=None, phases=[Phase.generate], suppress_health_check=list(HealthCheck))
    @given(tzgen.source(False))
    def gen(o):
        drawn.append(o)

    gen()
    objs = objs + drawn
    ctx.count("fresh_generated_sources", len(objs))
    text = "".join(tzgen.render(o, "S%d" % i) for i, o in enumerate(objs))
    ok, err = tzoracle.zic_compile(text, os.path.join(vt.build_dir("C04"), "zic_fresh_gen"))
    if not ok:
        # a generated source zic rejects is outside the input domain: drop the offending sources one by one
        keep = []
        for i, o in enumerate(objs):
            ok1, _ = tzoracle.zic_compile(tzgen.render(o, "S%d" % i), os.path.join(vt.build_dir("C04"), "zic_fresh_one"))
            if ok1:
                keep.append((i, o))
        ctx.count("fresh_generated_sources_rejected_by_zic", len(objs) - len(keep))
        text = "".join(tzgen.render(o, "S%d" % i) for i, o in keep)

    def single(z):
        m = re.match(r"Gen/S(\d+)", z)
        return tzgen.render(objs[int(m.group(1))]) if m else None

    out += compile_fresh(ctx, "generated", text, 2000, 2050, None, thorough, singles=single)
    out += compile_fresh(ctx, "seconds", SECONDS_SOURCE, 1965, 2000, None, True)
    return out


def run(ctx):
    ctx.assumptions = [
        "shipped database: both sides consume the same data by construction: the Python ZoneInfo dictionaries are built from the "
        "tables as decoded by the C++ brokers (dumpdb driver)",
        "freshly compiled sources: the C++ side runs on the tables tzcompiler.py generates (arduino, extended scope), the Python side "
        "on the in-memory tables the same compiler classes produce from the same source and year range (what --language python "
        "writes; C20 ties the written files to the in-memory tables)",
        "oracle: differential (C++ vs Python, and the Python configurations against each other); exceptions / sys.exit in the "
        "reference implementation count as disagreement",
        "local date-times limited to 2000-01-03..2049-12-29; C++ observable = TimeZone::getOffsetDateTime (wall - chosen offset, "
        "then the offset in force at that instant), Python normalised the same way",
    ]
    exe = sweeplib.build_sweep("C04")
    dump = dblib.dump_shipped("C04")
    zones = dump["zones"]["x"]
    thorough = ctx.tier == "thorough"
    rnd = random.Random(ctx.seed)
    allopt = set(range(len(zones))) if thorough else set(rnd.sample(range(len(zones)), 40))
    only = None
    if ctx.replay:
        only = json.load(open(ctx.replay))["replay"]["zone"]
    jobs = [dict(exe=exe, zi=i, z=z, seed=ctx.seed, tier=ctx.tier, all_opts=(i in allopt) or only is not None)
            for i, z in enumerate(zones) if only is None or z["name"] == only]
    fresh = [] if only is not None else fresh_jobs(ctx, thorough, rnd)
    if ctx.replay:
        rp = json.load(open(ctx.replay))["replay"]
        if "source" in rp:
            jobs = []
            fresh = compile_fresh(ctx, "replay", rp["source"], rp["start_year"], rp["until_year"], None, True)
    results = vt.pmap(zone_job, jobs + [f for f, _ in fresh])
    metas = [None] * len(jobs) + [m for _, m in fresh]
    for r, meta in zip(results, metas):
        ctx.evaluations += r["evaluations"]
        ctx.nontrivial += r["nt_years"] + r["nt_wall"]
        ctx.count("zone_years_with_2+_transitions", r["nt_years"])
        ctx.count("wall_time_cases", r["nt_wall"])
        ctx.count("zones" if meta is None else "fresh_zones_" + meta["label"])
        ctx.count("zones_with_all_8_option_sets", 1 if r["hist"].get("option_sets") == 8 else 0)
        for s in r["samples"]:
            ctx.sample(s, cap=6 if meta is None else 9)
        for f in r["fails"]:
            key = "%s:%s" % (f["kind"], r["zone"])
            if f["kind"] in ("options-local", "local"):
                key += "@" + f["detail"].get("wall_iso", "?")[:16]
                if f["kind"] == "options-local":
                    key += "/vm%d" % f["detail"]["options_b"]["viewing_months"]
            if meta is None:
                ctx.violation(key, {"zone": r["zone"], "fail": f}, "%s %s: %s" % (f["kind"], r["zone"], json.dumps(f["detail"], default=str)[:900]))
            else:
                # generated zones are renumbered per run: key by corpus and kind of failure only
                if meta["label"] != "real2025b":
                    key = f["kind"]
                ctx.violation("fresh:%s:%s" % (meta["label"], key),
                              {"zone": r["zone"], "fail": f, "source": meta["source"], "start_year": meta["sy"], "until_year": meta["uy"]},
                              "freshly compiled %s (%d..%d), C++ tables vs Python tables, %s %s: %s" %
                              (meta["label"], meta["sy"], meta["uy"], f["kind"], r["zone"], json.dumps(f["detail"], default=str)[:900]))
    ctx.rule = ("every zone of zonedbx (decoded to the Python data model) and of freshly compiled sources (real 2025b for 1995..2040: " +
                ("all" if thorough else "40 seed-drawn") + " zones; enumerated + Hypothesis-drawn small sources for 2000..2050; a source with "
                "second-resolution offsets for 1965..2000) x every C++ change instant +-1 s, every Python "
                "startEpochSecond +-1 s and every month start; every wall minute within +-180 min of every transition, year ends and "
                "seed-drawn wall times (sub-intervals between breakpoints of either side evaluated at both ends); option sets: "
                "{default, all-basic/13 months} for all zones and all 8 for " + ("all zones" if thorough else "40 seed-drawn zones") +
                " (answers, per-year transition lists within one window size); Python history independence on random year orders. "
                "Non-trivial = (zone, year) with >= 2 transitions + wall-time cases evaluated")


if __name__ == "__main__":
    vt.main("C04", run)
