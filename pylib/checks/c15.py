"""C15 - printed forms are exact ISO-8601 and parse back to the same value."""
import calendar
import datetime as dtm
import json
import random

import hypothesis
from hypothesis import given, settings, strategies as st, Phase, HealthCheck

import sweeplib
import tzoracle
import vt

DAYNAMES = ["Monday", "Tuesday", "Wednesday", "Thursday", "Friday", "Saturday", "Sunday"]
I32MIN = -2**31


def unhex(h):
    return "" if h == "-" else bytes.fromhex(h).decode("latin-1")


def fmt_off(m):
    a = abs(m)
    return "%s%02d:%02d" % ("-" if m < 0 else "+", a // 60, a % 60)


def job(a):
    exe, lines = a
    rc, out, err = vt.run_exe(exe, [], stdin="\n".join(lines) + "\n", timeout=3600)
    return rc, out, err, len(lines)


def check_lines(ctx, out, names, nt):
    for line in (out or "").splitlines():
        k, _, body = line.partition(" ")
        ctx.evaluations += 1
        if k == "LDT":
            f = body.split("|")
            y, mo, d, h, mi, s = [int(x) for x in f[0].split()]
            printed = unhex(f[1])
            err, b, bf = [int(x) for x in f[2].split()]
            want = "%04d-%02d-%02dT%02d:%02d:%02d" % (y, mo, d, h, mi, s)
            pd, pt = unhex(f[3]), unhex(f[4])
            bd, bt = [int(x) for x in f[5].split()]
            wd = "%04d-%02d-%02d %s" % (y, mo, d, DAYNAMES[dtm.date(y, mo, d).weekday()])
            wt = "%02d:%02d:%02d" % (h, mi, s)
            if mo < 10 or d < 10 or h < 10 or mi < 10 or s < 10:
                nt.add(printed)
            if err or printed != want or not b or not bf or pd != wd or pt != wt or not bd or not bt:
                ctx.violation("ldt:" + want, {"line": "LDT " + f[0]},
                              "LocalDateTime %s printed %r (date %r, time %r) err=%d parse-back equal=%d/%d date=%d time=%d" %
                              (want, printed, pd, pt, err, b, bf, bd, bt))
        elif k == "OFF":
            f = body.split("|")
            m = int(f[0])
            printed = unhex(f[1])
            e, back = [int(x) for x in f[2].split()]
            if -59 <= m < 0 or abs(m) % 60 == 0 or abs(m) // 60 < 10:
                nt.add(printed)
            if printed != fmt_off(m) or e or back != m:
                ctx.violation("off:%d" % m, {"line": "OFF %d" % m}, "TimeOffset %d minutes printed %r (want %r), parsed back to %d err=%d" %
                              (m, printed, fmt_off(m), back, e))
        elif k == "ODT":
            f = body.split("|")
            y, mo, d, h, mi, s, off = [int(x) for x in f[0].split()]
            printed = unhex(f[1])
            err, b, bf, boff = [int(x) for x in f[2].split()]
            want = "%04d-%02d-%02dT%02d:%02d:%02d%s" % (y, mo, d, h, mi, s, fmt_off(off))
            if off < 0 and off > -60:
                nt.add(printed)
            if err or printed != want or not b or not bf or boff != off:
                ctx.violation("odt:" + want, {"line": "ODT " + f[0]}, "OffsetDateTime printed %r want %r; parse-back equal=%d/%d offset %d" %
                              (printed, want, b, bf, boff))
        elif k == "ZDT":
            f = body.split("|")
            if f[0] == "BAD":
                raise vt.HarnessError("bad ZDT request")
            db, zi, t, managed = f[0].split()
            zi, t = int(zi), int(t)
            printed = unhex(f[1])
            err, berr, bepoch, boff, voff, reprint = [int(x) for x in f[2].split()]
            if not reprint:
                ctx.violation("zdt-reprint:%s" % db, {"line": "ZDT " + f[0]},
                              "a ZonedDateTime printed differently after another zone had used the shared processor (request before %s %s)" % (db, names[db][zi]))
            local = dtm.datetime(2000, 1, 1) + dtm.timedelta(seconds=t + voff * 60)
            want = local.strftime("%Y-%m-%dT%H:%M:%S") + fmt_off(voff) + "[" + names[db][zi] + "]"
            nt.add(printed[-40:])
            if err or printed != want or berr or bepoch != t or boff != voff:
                ctx.violation("zdt:%s:%s" % (db, names[db][zi]), {"line": "ZDT " + f[0]},
                              "ZonedDateTime printed %r want %r; parsed back epoch %d (want %d) offset %d (want %d) err=%d" %
                              (printed, want, bepoch, t, boff, voff, berr))
        elif k == "ZC":
            f = body.split("|")
            y, mo, d, h, mi, sec, off = [int(x) for x in f[0].split()]
            printed = unhex(f[1])
            err, berr = [int(x) for x in f[2].split()]
            back = [int(x) for x in f[3].split()]
            zname = "UTC" if off == 0 else fmt_off(off) + "+00:00"
            want = "%04d-%02d-%02dT%02d:%02d:%02d%s[%s]" % (y, mo, d, h, mi, sec, fmt_off(off), zname)
            nt.add(printed[:10])
            if err or berr or printed != want or back != [y, mo, d, h, mi, sec, off]:
                ctx.violation("zc:%d" % (y // 50 * 50), {"line": "ZC " + f[0]},
                              "ZonedDateTime %s printed %r and parsed back to %r (err %d/%d)" % (want, printed, back, err, berr))
        elif k == "ZMAN":
            f = body.split("|")
            sd, dd, t = [int(x) for x in f[0].split()]
            printed = unhex(f[1])
            err, berr, bepoch, boff = [int(x) for x in f[2].split()]
            short = unhex(f[3])
            tot = sd + dd
            local = dtm.datetime(2000, 1, 1) + dtm.timedelta(seconds=t + tot * 60)
            zname = "UTC" if (sd == 0 and dd == 0) else fmt_off(sd) + fmt_off(dd)
            want = local.strftime("%Y-%m-%dT%H:%M:%S") + fmt_off(tot) + "[" + zname + "]"
            wshort = "UTC" if (sd == 0 and dd == 0) else fmt_off(tot) + ("(DST)" if dd else "(STD)")
            if err or printed != want or berr or bepoch != t or boff != tot or short != wshort:
                ctx.violation("zman:%d:%d" % (sd, dd), {"line": "ZMAN " + f[0]},
                              "manual zone (%d,%d): printed %r want %r; short %r want %r; parsed back epoch %d offset %d" %
                              (sd, dd, printed, want, short, wshort, bepoch, boff))
        elif k == "ERR":
            got = [unhex(x) for x in body.split("|")]
            want = ["<Invalid LocalDate>", "<Invalid LocalTime>", "<Invalid LocalDateTime>", "<Invalid OffsetDateTime>",
                    "<Invalid ZonedDateTime>", "<Error>", "<Error>"]
            if got != want:
                ctx.violation("placeholders", {"line": "ERR"}, "error placeholders %r want %r" % (got, want))
        elif k == "ZLONG":
            f = body.split("|")
            ln, t = [int(x) for x in f[0].split()]
            name = "T/" + "".join(chr(ord("a") + (k_ % 26)) for k_ in range(2, ln))
            got = [unhex(x) for x in f[1:]]
            nt.add(("zlong", ln))
            if not (got[0].endswith("[" + name + "]") and got[1].endswith("[" + name + "]") and got[2] == name and got[3] == name.split("/")[-1]):      # printShortTo(): the part after the last '/'
                ctx.violation("long-zone-name:%d" % ln, {"line": "ZLONG " + f[0]},
                              "a zone whose name has %d characters printed %r / %r / %r / %r, want the full name %r" % (ln, got[0][-45:], got[1][-45:], got[2][-45:], got[3][-45:], name))
        elif k == "ERR3":
            f = body.split("|")
            kinds = ["LocalDate", "LocalTime", "LocalDateTime", "OffsetDateTime", "ZonedDateTime", "ZonedDateTime", "OffsetDateTime"]
            comp_ = [int(x_) for x_ in f[0].split()]
            time_valid = (comp_[3] < 24 and comp_[4] < 60 and comp_[5] < 60) or comp_[3:6] == [24, 0, 0]
            date_valid = 1873 <= comp_[0] <= 2127 and 1 <= comp_[1] <= 12 and 1 <= comp_[2] <= 31
            for kind, cell in zip(kinds, f[1:]):
                e, hx = cell.split()
                if not date_valid and kind != "LocalTime" and unhex(hx) != "<Invalid %s>" % kind:
                    # independent validity oracle for the date: years 1873..2127 (the documented range), months 1..12, days 1..31
                    ctx.violation("invalid-date-prints:" + kind, {"line": "ERR3 " + f[0]},
                                  "a %s built from the invalid date %d-%d-%d printed %r instead of its placeholder (isError() = %s)" %
                                  (kind, comp_[0], comp_[1], comp_[2], unhex(hx), e))
                if not time_valid and kind != "LocalDate" and unhex(hx) != "<Invalid %s>" % kind:
                    # independent validity oracle for the time of day: 00:00:00..23:59:59 and 24:00:00 are the valid times
                    ctx.violation("invalid-time-prints:" + kind, {"line": "ERR3 " + f[0]},
                                  "a %s with the invalid time %02d:%02d:%02d printed %r instead of its placeholder (isError() = %s)" %
                                  (kind, comp_[3], comp_[4], comp_[5], unhex(hx), e))
                if e == "1":
                    nt.add(("err3", kind, f[0].split()[-1] == "99999"))
                    if unhex(hx) != "<Invalid %s>" % kind:
                        ctx.violation("error-value-prints:" + kind, {"line": "ERR3 " + f[0]},
                                      "an error %s (components %s; isError() is true) printed %r instead of its placeholder" % (kind, f[0], unhex(hx)))
        elif k == "ERR2":
            got = [unhex(x) for x in body.split("|")]
            if got != ["<Invalid ZonedDateTime>", "<Invalid OffsetDateTime>"]:
                ctx.violation("placeholders2", {"line": "ERR"}, "error values from the sentinel print %r" % (got,))
        elif k == "PARSE":
            kind, n, err = body.split()
            minlen = {"date": 10, "time": 8, "ldt": 19, "ldtF": 19, "off": 6, "odt": 25, "odtF": 25, "zdt": 25}[kind]
            if int(n) < minlen:
                nt.add(("short", kind, n))
                if err != "1":
                    ctx.violation("short:%s:%s" % (kind, n), {"line": "PARSE " + body},
                                  "%s parser accepted a string of length %s (< %d) as a non-error value" % (kind, n, minlen))


def run(ctx):
    ctx.assumptions = ["oracle: Python format strings written from the header documentation; the shim's Print and printPad2To are trusted",
                       "malformed text of sufficient length is documented as unspecified: only memory safety is C09's subject"]
    exe = vt.build("C15", "print", ["print.cpp"])
    sw = sweeplib.build_sweep("C15", "sweep_list")
    names = {"b": sweeplib.list_zones(sw, "b"), "x": sweeplib.list_zones(sw, "x")}
    if ctx.replay:
        r = json.load(open(ctx.replay))["replay"]
        rc, out, err = vt.run_exe(exe, [], stdin=r["line"] + "\n")
        check_lines(ctx, out, names, set())
        ctx.evaluations = 1
        return
    thorough = ctx.tier == "thorough"
    rnd = random.Random(ctx.seed)
    lines = ["ERR"]
    # zone names longer than any shipped one (the longest IANA names have 32 characters; the record format sets no limit)
    for ln in list(range(3, 70)) + [100, 150, 199]:
        lines.append("ZLONG %d %d" % (ln, 646531200 + ln * 86400))
    # error values with exactly one invalid part (and valid controls)
    for comp in ((2018, 8, 31, 13, 48, 1), (2018, 13, 1, 0, 0, 0), (2018, 0, 1, 0, 0, 0), (2018, 1, 0, 0, 0, 0), (2018, 1, 32, 0, 0, 0),
                 (2018, 1, 1, 25, 0, 0), (2018, 1, 1, 0, 60, 0), (2018, 1, 1, 0, 0, 60), (2018, 1, 1, 24, 0, 1), (2018, 1, 1, 24, 1, 0), (2018, 1, 1, 24, 30, 30), (2060, 6, 1, 12, 0, 0), (1990, 6, 1, 12, 0, 0),
                 (2127, 12, 31, 23, 59, 59), (1872, 1, 1, 0, 0, 0),
                 (1800, 1, 1, 0, 0, 0), (2200, 6, 15, 12, 0, 0), (0, 1, 1, 0, 0, 0), (2128, 1, 1, 0, 0, 0), (1000, 2, 3, 4, 5, 6), (-1, 1, 1, 0, 0, 0), (2384, 1, 1, 0, 0, 0),
                 (32767, 12, 31, 23, 59, 59), (-32768, 1, 1, 0, 0, 0), (1617, 5, 5, 5, 5, 5), (2256, 1, 1, 0, 0, 0), (2018, 255, 1, 0, 0, 0), (2018, 1, 255, 0, 0, 0)):
        for off in (0, -480, 99999):
            lines.append("ERR3 %d %d %d %d %d %d %d" % (comp + (off,)))
    # all dates x 4 times
    d = dtm.date(1873, 1, 1)
    end = dtm.date(2127, 12, 31)
    times = [(0, 0, 0), (23, 59, 59), (12, 34, 56), (9, 5, 7), (24, 0, 0)]      # 24:00:00 is a valid LocalTime
    while d <= end:
        for h, mi, s in times:
            lines.append("LDT %d %d %d %d %d %d" % (d.year, d.month, d.day, h, mi, s))
        d += dtm.timedelta(days=1)
    for m in range(-5999, 6000):
        lines.append("OFF %d" % m)
    # offset date-times
    offs = sorted(set([0, 1, -1, 59, -59, 60, -60, -30, 330, 345, -210, 765, 840, -720, 5999, -5999, 600, -600] +
                      list(range(-59, 0, 7)) + [rnd.randrange(-5999, 6000) for _ in range(30)]))
    for _ in range(8000 if thorough else 2000):
        y = rnd.randrange(1873, 2128)
        mo = rnd.randrange(1, 13)
        dd = rnd.randrange(1, calendar.monthrange(y, mo)[1] + 1)
        h, mi, s = rnd.randrange(24), rnd.randrange(60), rnd.randrange(60)
        if rnd.randrange(10) == 0:
            h, mi, s = 24, 0, 0
        for off in offs:
            lines.append("ODT %d %d %d %d %d %d %d" % (y, mo, dd, h, mi, s, off))
    # the first and the last day of the supported range with every offset (the UTC date of such a value may lie outside the range;
    # its printed form is still exact and parses back)
    for (y, mo, dd) in ((1873, 1, 1), (2127, 12, 31), (1873, 1, 2), (2127, 12, 30)):
        for (h, mi, s) in ((0, 0, 0), (0, 30, 0), (12, 0, 0), (23, 30, 0), (23, 59, 59)):
            for off in offs:
                lines.append("ODT %d %d %d %d %d %d %d" % (y, mo, dd, h, mi, s, off))
    # zoned
    for db in ("x", "b"):
        for zi in range(len(names[db])):
            for k in range(20):
                t = rnd.randrange(sweeplib.T0 + 86400, sweeplib.T1 - 86400)
                lines.append("ZDT %s %d %d %d" % (db, zi, t, k % 2))
    for sd in list(range(-960, 961, 45)) + [0, 1, -1, -59]:
        for dd in (0, 60, -60, 30, 120):
            lines.append("ZMAN %d %d %d" % (sd, dd, rnd.randrange(-10**9, 10**9)))
    # zoned date-times from components across the whole supported calendar (incl. years outside the epoch-seconds range)
    for y in range(1873, 2128):
        for off in (0, -30, 330, 840, -720):
            mo = rnd.randrange(1, 13)
            lines.append("ZC %d %d %d %d %d %d %d" % (y, mo, rnd.randrange(1, calendar.monthrange(y, mo)[1] + 1), rnd.randrange(24), rnd.randrange(60), rnd.randrange(60), off))
    # too-short strings: every proper prefix of a valid text, for each parser
    valid = {"date": "2019-12-31", "time": "23:59:58", "ldt": "2019-12-31T23:59:58", "ldtF": "2019-12-31T23:59:58",
             "off": "-07:30", "odt": "2019-12-31T23:59:58-07:30", "odtF": "2019-12-31T23:59:58-07:30",
             "zdt": "2019-12-31T23:59:58-07:30[America/Los_Angeles]"}
    minlen = {"date": 10, "time": 8, "ldt": 19, "ldtF": 19, "off": 6, "odt": 25, "odtF": 25, "zdt": 25}
    for kind, text in valid.items():
        for n in range(0, minlen[kind]):
            lines.append("PARSE %s %s" % (kind, text[:n].encode().hex() or "-"))
    nt = set()
    chunks = [lines[i::16] for i in range(16)]
    for rc, out, err, n in vt.pmap(job, [(exe, c) for c in chunks]):
        if rc != 0:
            ctx.violation("crash", {"rc": rc}, "print driver crashed rc=%s: %s" % (rc, (err or "")[-500:]))
        check_lines(ctx, out, names, nt)

    # Hypothesis-drawn local date-times
    hl = []

    @hypothesis.seed(ctx.seed)
    @settings(max_examples=20000 if thorough else 3000, deadline=None, database=None, phases=[Phase.generate],
              suppress_health_check=list(HealthCheck))
    @given(st.datetimes(min_value=dtm.datetime(1873, 1, 1), max_value=dtm.datetime(2127, 12, 31, 23, 59, 59)),
           st.integers(-5999, 5999))
    def draw(d, off):
        hl.append("ODT %d %d %d %d %d %d %d" % (d.year, d.month, d.day, d.hour, d.minute, d.second, off))
        hl.append("LDT %d %d %d %d %d %d" % (d.year, d.month, d.day, d.hour, d.minute, d.second))

    draw()
    rc, out, err, n = job((exe, hl))
    if rc != 0:
        ctx.violation("crash", {"rc": rc}, "print driver crashed rc=%s" % rc)
    check_lines(ctx, out, names, nt)
    ctx.nontrivial = len(nt)
    ctx.sample({"LocalDateTime": "2009-05-07T09:05:07"})
    ctx.sample({"TimeOffset_minutes": -30, "printed": "-00:30"})
    ctx.sample({"ZonedDateTime": "2019-03-10T03:00:00-07:00[America/Los_Angeles]"})
    ctx.count("lines", len(lines) + len(hl))
    ctx.rule = ("LocalDateTime/LocalDate/LocalTime: all 93,136 dates x 4 times + Hypothesis-drawn; TimeOffset: every minute count "
                "-5999..5999 (exhaustive); OffsetDateTime: seed-drawn date-times x ~60 offsets incl. -00:59..-00:01; ZonedDateTime: "
                "every zone of both registries x 20 instants (direct and manager-created) + manual zones; error placeholders; every "
                "proper prefix of a valid text for each parser (const char* and F() variants). Non-trivial = distinct printed texts "
                "with a single-digit field, a negative sub-hour offset, or a zone name, and the too-short inputs")


if __name__ == "__main__":
    vt.main("C15", run)
