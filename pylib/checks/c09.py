"""C09 - total error handling and memory safety; transition buffers never overflow."""
import glob
import json
import os
import re
import shutil
import subprocess

import compilelib
import sweeplib
import tzoracle
import vt

FUNC_RE = re.compile(r"^\s*(?:static\s+|inline\s+|explicit\s+|virtual\s+|constexpr\s+)*[\w:<>\*&,\s]*?\b(~?\w+)\s*\([^;{}]*\)?[^;]*$")


def enclosing_function(repo, base, line):
    """Map file:line to 'File:function' by scanning upwards for a definition header (robust to line shifts)."""
    cands = glob.glob(os.path.join(repo, "src", "ace_time", "**", base), recursive=True)
    if not cands:
        return base
    try:
        lines = open(cands[0]).read().splitlines()
    except OSError:
        return base
    depth_fn = None
    for i in range(min(line, len(lines)) - 1, -1, -1):
        s = lines[i]
        if s.startswith("    ") and not s.startswith("     ") or s.startswith("inline ") or s.startswith("static "):
            m = re.match(r"^\s*(?:static |inline |explicit |virtual )*[\w:<>\*&\s]+?[\s\*&](~?\w+)\s*\(", s)
            if m and m.group(1) not in ("if", "for", "while", "switch", "return"):
                depth_fn = m.group(1)
                break
            m = re.match(r"^\s*(?:explicit )?(~?\w+)\s*\(.*[{:,]\s*$", s)
            if m and m.group(1) not in ("if", "for", "while", "switch", "return"):
                depth_fn = m.group(1)
                break
    return "%s:%s" % (base.rsplit(".", 1)[0], depth_fn or "?")


def site_key(repo, raw):
    """raw: 'ubsan:<kind>:<file>:<line>' | 'semantic:<what>' -> stable key"""
    if raw.startswith("ubsan:"):
        _, kind, base, line = raw.split(":")
        return "ubsan:%s@%s" % (kind, enclosing_function(repo, base, int(line)))
    return raw


def asan_key(repo, stderr):
    m = re.search(r"ERROR: AddressSanitizer: (\S+)", stderr)
    typ = m.group(1) if m else "crash"
    fn = "?"
    for fm in re.finditer(r"#\d+ 0x[0-9a-f]+ in (\S+?)(?:\(| )[^\n]*?src/ace_time/([\w/]+\.\w+):(\d+)", stderr):
        fn = "%s:%s" % (os.path.basename(fm.group(2)).rsplit(".", 1)[0], fm.group(1).split("::")[-1])
        break
    return "asan:%s@%s" % (typ, fn)


def gen_job(a):
    exe, seed, count, outdir = a
    os.makedirs(outdir, exist_ok=True)
    rc, out, err = vt.run_exe(exe, ["gen", seed, count, outdir, "-"], timeout=7200,
                              env_extra={"UBSAN_OPTIONS": "print_stacktrace=0:halt_on_error=0", "ASAN_OPTIONS": "detect_leaks=0:exitcode=99"})
    return rc, out, err, outdir, seed


def seq_job(a):
    exe, db, zi = a
    rc, out, err = vt.run_exe(exe, ["seq4", db, zi], timeout=7200,
                              env_extra={"UBSAN_OPTIONS": "print_stacktrace=1:halt_on_error=1:exitcode=98", "ASAN_OPTIONS": "detect_leaks=0:exitcode=99"})
    return rc, out, err, a[1:]


def harvest(ctx, repo, err, outdir, origin, seen):
    """Turn SITE / DEATH lines into violations (or known findings) with the saved input as the replay."""
    for line in (err or "").splitlines():
        if not line.startswith("SITE "):
            continue
        raw, _, rest = line[5:].partition(" | ")
        key = site_key(repo, raw.strip())
        if key in seen:
            continue
        seen.add(key)
        binp = os.path.join(outdir, re.sub(r"[^A-Za-z0-9.\-]", "_", raw.strip())[:120] + ".bin")
        replay = {"origin": origin, "site": raw.strip(), "detail": rest[:400]}
        if os.path.exists(binp):
            replay["input_hex"] = open(binp, "rb").read().hex()
        ctx.violation(key, replay, "%s: %s" % (key, rest[:500]))
    if "DEATH op=" in (err or "") or "ERROR: AddressSanitizer" in (err or ""):
        key = asan_key(repo, err)
        if key not in seen:
            seen.add(key)
            replay = {"origin": origin, "site": key, "detail": (err or "")[-1800:]}
            binp = os.path.join(outdir, "fatal.bin")
            if os.path.exists(binp):
                replay["input_hex"] = open(binp, "rb").read().hex()
            m = re.search(r"DEATH op=([^\n]*)", err)
            ctx.violation(key, replay, "%s during %s\n%s" % (key, m.group(1) if m else "?", (err or "")[-900:]))


def run(ctx):
    ctx.assumptions = [
        "ASan + UBSan build (UB in recover mode, every distinct site collected through __ubsan_on_report with the input that "
        "reached it; fatal ASan errors through the sanitizer death callback)",
        "out-of-range oracle: sentinel, invalid components, error time zone, or a year more than one year outside the window the "
        "processors accept ([startYear-1, untilYear] = 1999..2050) must give the documented error value, twice in a row",
        "site keys are kind@File:function (derived from file:line by scanning the source upwards), so they survive line shifts",
    ]
    repo = vt.REPO
    exe = vt.build("C09", "c09gen", ["c09_gen.cpp"], sanitize=True, recover=True)
    work = vt.build_dir("C09")
    seen = set()
    if ctx.replay:
        r = json.load(open(ctx.replay))["replay"]
        if "input_hex" in r:
            p = os.path.join(work, "replay.bin")
            open(p, "wb").write(bytes.fromhex(r["input_hex"]))
            rc, out, err = vt.run_exe(exe, ["replay", p, "-"], env_extra={"UBSAN_OPTIONS": "print_stacktrace=1:halt_on_error=0"})
            os.makedirs(os.path.join(work, "r"), exist_ok=True)
            harvest(ctx, repo, err, os.path.join(work, "r"), "replay", seen)
        ctx.evaluations = 1
        return
    thorough = ctx.tier == "thorough"
    # ---- (a)+(b) generated op sequences ----
    per = 400000 if thorough else 40000
    jobs = [(exe, ctx.seed * 100 + k, per, os.path.join(work, "gen%d" % k)) for k in range(16)]
    for rc, out, err, outdir, sd in vt.pmap(gen_job, jobs):
        for line in (out or "").splitlines():
            if line.startswith("DONE"):
                kv = dict(x.split("=") for x in line.split()[1:])
                ctx.evaluations += int(kv["ops"])
                ctx.nontrivial += int(kv["nontrivial"])
                ctx.count("generated_inputs", int(kv["inputs"]))
                ctx.count("ops", int(kv["ops"]))
        harvest(ctx, repo, err, outdir, "gen seed=%d" % sd, seen)
        if rc not in (0, 99) and "DEATH" not in (err or ""):
            ctx.violation("gen-crash:rc%s" % rc, {"seed": sd, "stderr": (err or "")[-1500:]}, "generator driver died rc=%s" % rc)
    # ---- coverage-guided campaign (libFuzzer) ----
    try:
        fz = vt.build("C09", "c09fuzz", [os.path.join(vt.VERIF, "fuzz", "c09_fuzz.cpp")], sanitize=True, recover=True, fuzzer=True)
    except vt.HarnessError as e:
        raise
    corpus = os.path.join(work, "corpus")
    fout = os.path.join(work, "fuzzout")
    os.makedirs(corpus, exist_ok=True)
    os.makedirs(fout, exist_ok=True)
    # a few seed inputs: one per op code
    for op in range(24):
        open(os.path.join(corpus, "seed%02d" % op), "wb").write(bytes([3, 7, op] + [(op * 37 + k * 11) % 251 for k in range(24)]))
    secs = 1200 if thorough else 45
    workers = 16 if thorough else 8
    env = dict(os.environ)
    env.update({"C09_OUTDIR": fout, "UBSAN_OPTIONS": "print_stacktrace=0:halt_on_error=0", "ASAN_OPTIONS": "detect_leaks=0:exitcode=99"})
    procs = []
    for k in range(workers):
        cdir = os.path.join(work, "corpus%d" % k)
        shutil.copytree(corpus, cdir)
        procs.append(subprocess.Popen([fz, "-seed=%d" % (ctx.seed * 1000 + k + 1), "-max_total_time=%d" % secs, "-max_len=160",
                                       "-print_final_stats=1", "-artifact_prefix=%s/" % fout, cdir],
                                      stdout=subprocess.DEVNULL, stderr=subprocess.PIPE, text=True, env=env))
    execs = 0
    for k, p in enumerate(procs):
        _, err = p.communicate()
        m = re.search(r"stat::number_of_executed_units:\s*(\d+)", err or "")
        if m:
            execs += int(m.group(1))
        harvest(ctx, repo, err, fout, "libFuzzer worker %d" % k, seen)
        if p.returncode not in (0,) and "DEATH" not in (err or "") and "SITE" not in (err or "") and "ERROR: AddressSanitizer" not in (err or ""):
            if "ERROR: libFuzzer" in (err or ""):
                ctx.violation("fuzzer-crash", {"stderr": (err or "")[-1500:]}, "libFuzzer reported a crash/timeout: %s" % (err or "")[-600:])
    ctx.count("libfuzzer_executions", execs)
    ctx.evaluations += execs
    # ---- exhaustive sequences up to length 4 over argument classes x query kinds ----
    exe_h = exe
    import random
    rnd = random.Random(ctx.seed)
    sw = sweeplib.build_sweep("C09", "sweep_list")
    nb, nx = len(sweeplib.list_zones(sw, "b")), len(sweeplib.list_zones(sw, "x"))
    zs = [("b", z) for z in (range(nb) if thorough else rnd.sample(range(nb), 8))] + \
         [("x", z) for z in (range(nx) if thorough else rnd.sample(range(nx), 8))]
    for rc, out, err, info in vt.pmap(seq_job, [(exe_h, db, z) for db, z in zs]):
        for line in (out or "").splitlines():
            if line.startswith("MISMATCH"):
                ctx.violation("seq4:%s" % info[0], {"zone": list(info), "line": line}, line)
            elif line.startswith("SEQ4"):
                kv = dict(x.split("=") for x in line.split()[1:])
                ctx.evaluations += int(kv["n"])
                ctx.nontrivial += int(kv["n"]) * 3 // 4
                ctx.count("length<=4_sequences_steps", int(kv["n"]))
        if rc != 0:
            m = re.search(r"runtime error: ([^\n]*)", err or "")
            ctx.violation("seq4-crash:%s:%s" % (info[0], (m.group(1)[:50] if m else "rc%s" % rc)), {"zone": list(info), "stderr": (err or "")[-1500:]},
                          "exhaustive sequence run crashed for %s zone #%d: %s" % (info[0], info[1], (err or "")[-700:]))
    # ---- (c) buffer bounds: shipped tables and the freshly regenerated ones ----
    def check_bufs(binary, label):
        rc, out, err = vt.run_exe(binary, ["bufs"], timeout=3600,
                                  env_extra={"UBSAN_OPTIONS": "print_stacktrace=0:halt_on_error=0", "ASAN_OPTIONS": "detect_leaks=0"})
        if rc != 0:
            ctx.violation("bufs-crash:" + label, {"stderr": (err or "")[-1200:]}, "buffer-bound run crashed (%s): %s" % (label, (err or "")[-500:]))
        worst = 0
        for line in (out or "").splitlines():
            f = line.split()
            if len(f) < 3 or f[0] not in ("X", "B"):
                continue        # e.g. sanitizer text interleaved after a crash (already reported above)
            kv = dict(x.split("=") for x in f[2:] if "=" in x)
            if (f[0] == "X" and not {"highwater", "bufsize", "max", "errors"} <= set(kv)) or (f[0] == "B" and not {"dropped", "errors"} <= set(kv)):
                continue
            ctx.evaluations += 52
            if f[0] == "X":
                hw, bs, mx = int(kv["highwater"]), int(kv["bufsize"]), int(kv["max"])
                worst = max(worst, hw)
                if hw >= bs - 1:
                    ctx.nontrivial += 1
                if not (hw < bs and hw < mx):
                    ctx.violation("bufsize:%s:%s" % (label, f[1]), {"db": label, "zone": f[1], "line": line},
                                  "%s %s: transition pool high-water %d (year %s) is not below the recorded size %d / capacity %d" %
                                  (label, f[1], hw, kv["year"], bs, mx))
            else:
                if int(kv["dropped"]) != 0:
                    ctx.violation("basic-dropped:%s:%s" % (label, f[1]), {"db": label, "zone": f[1]},
                                  "%s %s: the basic processor needed more than its 5 cache slots (%s transitions dropped)" % (label, f[1], kv["dropped"]))
            if int(kv["errors"]) >= 1000:
                ctx.violation("abbrev-overrun:%s:%s" % (label, f[1]), {"db": label, "zone": f[1]},
                              "%s %s: getAbbrev() returned more than 6 characters (the abbreviation buffer was overrun or left unterminated)" % (label, f[1]))
            elif int(kv["errors"]) != 0:
                ctx.violation("bufs-error:%s:%s" % (label, f[1]), {"db": label, "zone": f[1]}, "%s %s: in-range query returned an error" % (label, f[1]))
        ctx.extra["worst_highwater_" + label] = worst
    check_bufs(exe, "shipped")
    outs = {}
    for scope, dbdir in (("extended", "zonedbx"), ("basic", "zonedb")):
        src, _, _ = tzoracle.reconstruct_source(dbdir)
        r = compilelib.compile_source(work, "re_" + scope, src, scope, "arduino", db_namespace="re" + scope[0], actions="zonedb")
        if r["rc"] != 0:
            raise vt.HarnessError("tzcompiler failed on the reconstructed source")
        outs[scope] = r["outdir"]
    exe2 = compilelib.build_with_generated("C09", "c09gen_regen", "c09_gen.cpp", x_out=outs["extended"], x_ns="ree", b_out=outs["basic"],
                                           b_ns="reb", sanitize=True)
    check_bufs(exe2, "regenerated")
    # compiler-generated zones beyond the shipped shapes: the enumerated sources of the TZ grammar (era boundaries x rules,
    # policies that start around the first year of the database, January rules, ...), compiled together per scope
    import tzgen
    gouts = {}
    for scope in ("extended", "basic"):
        objs = tzgen.systematic_sources(scope == "basic")
        text = "".join(tzgen.render(o, "S%d" % i) for i, o in enumerate(objs))
        if scope == "extended":
            # FORMAT + LETTER longer than the 6 characters an abbreviation buffer holds (zic only warns about such names; the
            # library must cut them, never write past the buffer)
            text += ("Rule\tPL\t1990\tmax\t-\tMar\tlastSun\t2:00\t1:00\tEFGHIJKL\nRule\tPL\t1990\tmax\t-\tOct\tlastSun\t3:00\t0\tMNO\n"
                     "Zone\tGen/LongAbbrev1\t3:00\tPL\tABCD%s\nZone\tGen/LongAbbrev2\t3:00\tPL\t%s\nZone\tGen/LongAbbrev3\t3:00\tPL\tABCDEF%s\n")
        r = compilelib.compile_source(work, "gen_" + scope, text, scope, "arduino", db_namespace="gn" + scope[0], actions="zonedb")
        if r["rc"] != 0:
            raise vt.HarnessError("tzcompiler failed on the enumerated sources (C03 reports that): " + r["log"][-400:])
        gouts[scope] = r["outdir"]
        ctx.count("enumerated_sources_" + scope, len(objs))
    exe3 = compilelib.build_with_generated("C09", "c09gen_enum", "c09_gen.cpp", x_out=gouts["extended"], x_ns="gne", b_out=gouts["basic"],
                                           b_ns="gnb", sanitize=True)
    check_bufs(exe3, "enumerated")
    ctx.sample({"op_sequence_example": ["LocalDate::forComponents(1874,88,30)", "ZonedDateTime::forEpochSeconds(INT32_MIN, extended tz) x2",
                                        "TimeZone::getAbbrev(2060-..) x2 on a processor shared by two zones"]})
    ctx.sample({"seq4_history": "kind:argclass steps, e.g. [0:0 1:2 1:2 2:3] = off(valid) delta(above) delta(above) abbrev(sentinel)"})
    ctx.rule = ("(a,b) byte-decoded op sequences (24 op families over dates, times, offsets, zoned/offset date-times, time zones of every "
                "kind incl. shared processors and managers, lookups with arbitrary names/ids/indices, parsers on arbitrary text, "
                "mutation helpers, periods; boundary-biased argument pools) from a seeded generator (16 x " + str(per) + " inputs) and a "
                "libFuzzer campaign (" + str(workers) + " workers x " + str(secs) + " s), with the documented-error-value oracle in the target; "
                "exhaustive length<=4 sequences over {valid, below, above, sentinel} x {off, delta, abbrev, odt, print} vs a fresh "
                "processor; (c) per zone and year 1999..2050 (by instant and by local date) pool high-water < recorded size and < "
                "capacity, basic drop counter = 0, on shipped and regenerated tables. Non-trivial = ops with an out-of-domain argument "
                "checked against the error oracle, sequence steps after the first, zones at bufSize-1")


if __name__ == "__main__":
    vt.main("C09", run)
