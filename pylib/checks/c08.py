"""C08 - answers are independent of query history (caches, shared processors, eviction)."""
import json
import os
import random

import hypothesis
from hypothesis import settings, strategies as st, Phase, HealthCheck
from hypothesis.stateful import RuleBasedStateMachine, rule, precondition, initialize, run_state_machine_as_test

import rpcdrv
import tzoracle
import vt

I32MIN = -2**31
NB, NX = 268, 387      # re-read from the driver at start

DRV = None
FAILS = []            # collected failures: dict(bucket, ops, failure)
STATS = {"runs": 0, "queries": 0, "rebind": 0, "evict": 0, "oor_repeat": 0, "first_call_print": 0,
         "nontrivial_keys": set(), "steps": 0}
SAMPLES = []


def instant(y, where, r):
    if where == "mid":
        return tzoracle.t_of(y, 7, 1, 12)
    if where == "jan1":
        return tzoracle.t_of(y, 1, 1)
    if where == "dec31":
        return tzoracle.t_of(y, 12, 31, 23, 59, 59)
    lo, hi = tzoracle.t_of(y), tzoracle.t_of(y + 1) - 1
    return lo + r % (hi - lo + 1)


years = st.one_of(st.integers(1998, 2051), st.sampled_from([1940, 1990, 1997, 1999, 2000, 2049, 2050, 2051, 2052, 2066]))
instants = st.one_of(
    st.builds(instant, years, st.sampled_from(["mid", "jan1", "dec31", "rnd"]), st.integers(0, 2**31)),
    st.just(I32MIN))
qkinds = st.sampled_from(["off", "delta", "abbrev", "odt", "print", "short", "id", "zdt"])


class Machine(RuleBasedStateMachine):
    def __init__(self):
        super().__init__()
        self.ops = []
        self.h = None
        self.failed = False
        self.n_procs = 0
        self.proc_kind = []
        self.n_mgrs = 0
        self.mgr_info = []
        self.tz_info = []     # (kind 'd'/'m', container ref, zone)
        self.last_q = {}      # container -> (zone, argclass)
        self.seen_oor = set()
        self.flags = set()
        STATS["runs"] += 1

    def _do(self, op):
        if self.failed:
            return
        if self.h is None:
            self.h = rpcdrv.History(DRV)
        self.ops.append(op)
        STATS["steps"] += 1
        try:
            r = self.h.step(op)
        except rpcdrv.Crash as c:
            self.failed = True
            FAILS.append({"bucket": c.bucket(), "ops": list(self.ops),
                          "failure": {"kind": "crash", "command": c.command, "stderr": c.stderr[-1500:]}})
            self.h = None
            return
        if r:
            self.failed = True
            FAILS.append({"bucket": "mismatch:%s" % op[2], "ops": list(self.ops), "failure": r[1]})

    @initialize(kind=st.sampled_from(["b", "x"]), db=st.sampled_from(["b", "x"]), size=st.integers(1, 4),
                data=st.data())
    def first_objects(self, kind, db, size, data):
        # one shared processor with two zones bound, one manager with more zones than cache slots in use
        self.new_processor(kind)
        n = NB if kind == "b" else NX
        for z in data.draw(st.lists(st.integers(0, n - 1), min_size=2, max_size=2, unique=True)):
            self._do(["tz", 0, z])
            self.tz_info.append(("d", 0, z))
        n = NB if db == "b" else NX
        k = data.draw(st.integers(2, 8))
        zs = sorted(data.draw(st.lists(st.integers(0, n - 1), min_size=k, max_size=k, unique=True)))
        self._do(["mgr", db, size, zs])
        self.mgr_info.append((db, size, zs))
        self.n_mgrs += 1
        for i in data.draw(st.lists(st.integers(0, k - 1), min_size=2, max_size=min(k, size + 1), unique=True)):
            self._do(["mtz", 0, "index", i])
            self.tz_info.append(("m", 0, zs[i]))

    @rule(kind=st.sampled_from(["b", "x"]))
    def new_processor(self, kind):
        if self.n_procs >= 3:
            return
        self._do(["proc", kind])
        self.proc_kind.append(kind)
        self.n_procs += 1

    @precondition(lambda self: self.n_procs > 0)
    @rule(data=st.data())
    def bind_tz(self, data):
        p = data.draw(st.integers(0, self.n_procs - 1))
        n = NB if self.proc_kind[p] == "b" else NX
        z = data.draw(st.integers(0, n - 1))
        if data.draw(st.integers(0, 5)) == 0 and self.tz_info:
            z = self.tz_info[-1][2] % n + n      # another edition of the zone bound last
        self._do(["tz", p, z])
        self.tz_info.append(("d", p, z))

    @rule(db=st.sampled_from(["b", "x"]), size=st.integers(1, 4), data=st.data())
    def new_manager(self, db, size, data):
        if self.n_mgrs >= 2:
            return
        n = NB if db == "b" else NX
        k = data.draw(st.integers(2, 8))
        zs = sorted(data.draw(st.lists(st.integers(0, n - 1), min_size=k, max_size=k, unique=True)))
        self._do(["mgr", db, size, zs])
        self.mgr_info.append((db, size, zs))
        self.n_mgrs += 1

    @precondition(lambda self: self.n_mgrs > 0)
    @rule(data=st.data(), how=st.sampled_from(["index", "info", "index", "name", "id"]))
    def tz_from_manager(self, data, how):
        m = data.draw(st.integers(0, self.n_mgrs - 1))
        db, size, zs = self.mgr_info[m]
        i = data.draw(st.integers(0, len(zs) - 1))
        if how == "index":
            self._do(["mtz", m, "index", i])
        elif how == "info":
            z = zs[i]
            if data.draw(st.integers(0, 3)) == 0:
                z += NB if db == "b" else NX      # another edition of that zone: same name and id, other eras
            self._do(["mtz", m, "info", z])
            self.tz_info.append(("m", m, z))
            return
        elif how == "name":
            self._do(["mtz", m, "name", rpcdrv.hexname(ZONE_NAMES[db][zs[i]])])
        else:
            self._do(["mtz", m, "id", ZONE_IDS[db][zs[i]]])
        self.tz_info.append(("m", m, zs[i]))

    @precondition(lambda self: len(self.tz_info) > 0)
    @rule(data=st.data(), kind=qkinds, t=instants, y=years,
          ldt=st.tuples(st.integers(1, 12), st.integers(1, 28), st.integers(0, 23), st.integers(0, 59)))
    def query(self, data, kind, t, y, ldt):
        ti = data.draw(st.integers(0, len(self.tz_info) - 1))
        if kind == "odt":
            op = ["q", ti, "odt", y, ldt[0], ldt[1], ldt[2], ldt[3], 0]
        elif kind in ("print", "short", "id"):
            op = ["q", ti, kind]
        else:
            op = ["q", ti, kind, t]
        self._query_op(op)

    def _query_op(self, op):
        ti, kind = op[1], op[2]
        if kind == "odt":
            argyear = op[3]
        elif kind in ("print", "short", "id"):
            argyear = None
        else:
            t = op[3]
            argyear = 1931 if t == I32MIN else 2000 + t // 31556952
        info = self.tz_info[ti]
        cont = (info[0], info[1])
        # classification of the state before this query
        prev = self.last_q.get(cont)
        cls = []
        if prev is not None and prev[0] != info[2]:
            cls.append("rebind" if info[0] == "d" else "evict-or-share")
        if prev is None and kind in ("print", "short", "abbrev"):
            cls.append("first-call-" + kind)
        oor = argyear is not None and (argyear < 1999 or argyear > 2050)
        if oor and (cont, info[2], argyear) in self.seen_oor:
            cls.append("oor-repeat")
        if oor:
            self.seen_oor.add((cont, info[2], argyear))
        if prev is not None and prev[1] != argyear and prev[0] == info[2]:
            cls.append("other-year")
        for c in cls:
            self.flags.add(c)
        if cls:
            STATS["nontrivial_keys"].add((info[2], tuple(cls), kind, argyear))
        self.last_q[cont] = (info[2], argyear if argyear is not None else (prev[1] if prev else None))
        STATS["queries"] += 1
        self.last_op = op
        self._do(op)

    @precondition(lambda self: getattr(self, "last_op", None) is not None)
    @rule(kind=st.sampled_from(["off", "delta", "abbrev", "zdt", "odt"]))
    def repeat_last(self, kind):
        # same time zone and same argument again, possibly through another accessor
        op = self.last_op
        ti = op[1]
        if kind == "odt" or op[2] == "odt":
            if op[2] != "odt":
                return
            new = list(op)
        elif op[2] in ("print", "short", "id"):
            return
        else:
            new = ["q", ti, kind, op[3]]
        self._query_op(new)

    @precondition(lambda self: getattr(self, "last_op", None) is not None)
    @rule(kind=st.sampled_from(["off", "delta", "abbrev", "zdt"]), where=st.sampled_from(["mid", "jan1", "dec31", "rnd"]), r=st.integers(0, 2**31))
    def same_year_other_instant(self, kind, where, r):
        # same time zone, same calendar year, another instant (e.g. Jan 1 first, then mid-year)
        op = self.last_op
        if op[2] in ("print", "short", "id"):
            return
        y = op[3] if op[2] == "odt" else (None if op[3] == I32MIN else 2000 + op[3] // 31556952)
        if y is None or y < 1932 or y > 2066:
            return
        self._query_op(["q", op[1], kind, instant(y, where, r)])

    @precondition(lambda self: len(self.tz_info) >= 2)
    @rule(data=st.data(), kind=st.sampled_from(["off", "delta", "abbrev", "print", "odt", "zdt"]), t=instants, y=years)
    def alternate(self, data, kind, t, y):
        # q(A); q(B); q(A) with A and B different zones on the same processor / manager
        a = data.draw(st.integers(0, len(self.tz_info) - 1))
        ia = self.tz_info[a]
        others = [i for i, x in enumerate(self.tz_info) if x[0] == ia[0] and x[1] == ia[1] and x[2] != ia[2]]
        if not others:
            return
        b = others[data.draw(st.integers(0, len(others) - 1))]
        for ti in (a, b, a):
            if kind == "odt":
                self._query_op(["q", ti, "odt", y, 6, 15, 12, 0, 0])
            elif kind == "print":
                self._query_op(["q", ti, "print"])
            else:
                self._query_op(["q", ti, kind, t])

    def teardown(self):
        for f in ("rebind", "evict-or-share", "oor-repeat"):
            if f in self.flags:
                STATS[{"rebind": "rebind", "evict-or-share": "evict", "oor-repeat": "oor_repeat"}[f]] += 1
        if any(f.startswith("first-call") for f in self.flags):
            STATS["first_call_print"] += 1
        if len(SAMPLES) < 4 and len(self.ops) > 6 and not self.failed and ("rebind" in self.flags or "evict-or-share" in self.flags):
            SAMPLES.append(self.ops[:14])


ZONE_NAMES = {"b": [], "x": []}
ZONE_IDS = {"b": [], "x": []}


def djb2(s):
    h = 5381
    for c in s.encode():
        h = (h * 33 + c) & 0xFFFFFFFF
    return h


def pairs_job(a):
    exe, db, zi, zj = a[:4]
    mode = a[4] if len(a) > 4 else "pairs"
    rc, out, err = vt.run_exe(exe, [mode, db, zi, zj], timeout=3600)
    return rc, out, err, a


def report_pairs(ctx, rc, out, err, a):
    mode = a[4] if len(a) > 4 else "pairs"
    zname = ZONE_NAMES[a[1]][a[2]]
    if rc != 0:
        ctx.violation("%s-crash:%s" % (mode, a[1]), {"pairs": list(a[1:4]), "mode": mode, "zone": zname},
                      "exhaustive histories (%s) crashed for %s %s rc=%s: %s" % (mode, a[1], zname, rc, (err or "")[-600:]))
    for line in (out or "").splitlines():
        if line.startswith("MISMATCH"):
            ctx.violation("%s-mismatch:%s:%s" % (mode, a[1], line.split("hist=")[1].split(" ")[0][1:]),
                          {"pairs": list(a[1:4]), "mode": mode, "zone": zname, "line": line}, "%s %s: %s" % (a[1], zname, line))
        elif line.startswith("PAIRS"):
            kv = dict(x.split("=") for x in line.split()[1:])
            ctx.evaluations += int(kv["n"])
            ctx.nontrivial += int(kv["n"]) - (54 * 25 if mode == "pairs" else 0)   # histories whose steps differ in year or zone
            ctx.count({"pairs": "two_and_three_step_histories", "rebind": "rebind_histories_of_multi_era_zone_pairs",
                       "alts": "two_editions_of_a_zone_in_one_manager"}[mode], int(kv["n"]))


def run(ctx):
    global DRV, NB, NX
    ctx.assumptions = [
        "oracle = the same query on a brand-new processor bound only to that zone (fresh-instance differential); "
        "C01/C02/C07 tie the fresh answers to zic",
        "state machine runs on an ASan+UBSan build; exhaustive two-step histories on a -O2 build",
        "instants are kept within 1932..2067 plus the error sentinel (the int32-limit arithmetic is C09's subject)",
    ]
    import sweeplib
    exe_san = vt.build("C08", "rpc_san", ["rpc.cpp"], sanitize=True)
    exe_fast = vt.build("C08", "rpc_fast", ["rpc.cpp"])
    sw = sweeplib.build_sweep("C08", "sweep_list")
    for db in ("b", "x"):
        ZONE_NAMES[db] = sweeplib.list_zones(sw, db)
        ZONE_IDS[db] = [djb2(n) for n in ZONE_NAMES[db]]
    NB, NX = len(ZONE_NAMES["b"]), len(ZONE_NAMES["x"])
    DRV = rpcdrv.Driver(exe_san)
    thorough = ctx.tier == "thorough"
    if ctx.replay:
        r = json.load(open(ctx.replay))["replay"]
        if "pairs" in r:
            a = (exe_fast,) + tuple(r["pairs"]) + (r.get("mode", "pairs"),)
            report_pairs(ctx, *pairs_job(a)[:3], a)
            DRV.close()
            return
        f = rpcdrv.run_history(DRV, r["ops"])
        if f:
            ctx.violation(f["bucket"], {"ops": r["ops"], "failure": f}, "replayed history fails: %s" % json.dumps(f)[:1500])
        ctx.evaluations = 1
        DRV.close()
        return
    # ---- generator 1: exhaustive two-step histories ----
    rnd = random.Random(ctx.seed)
    jobs = []
    for db, n in (("b", NB), ("x", NX)):
        zs = list(range(n)) if thorough else rnd.sample(range(n), 40)
        for z in zs:
            jobs.append((exe_fast, db, z, rnd.randrange(n)))
    # every ordered pair of zones with several eras re-bound on one processor (basic: all of them; extended: a sample),
    # and two editions of one zone (same name and id, different eras) handed to one manager
    for db, n in (("b", NB), ("x", NX)):
        rc, out, err = vt.run_exe(exe_fast, ["eras", db], timeout=600)
        multi = [int(l.split()[1]) for l in out.splitlines() if l.startswith("ERAS") and int(l.split()[2]) > 1]
        ctx.extra["zones_with_several_eras_" + db] = len(multi)
        ordered = [(i, j) for i in multi for j in multi if i != j]
        lim = 160 if db == "b" else (2000 if thorough else 120)
        if len(ordered) > lim:
            ordered = rnd.sample(ordered, lim)
        for i, j in ordered:
            jobs.append((exe_fast, db, i, j, "rebind"))
        step = 17
        for lo in range(0, n, step):
            jobs.append((exe_fast, db, lo, lo + step, "alts"))
    for rc, out, err, a in vt.pmap(pairs_job, jobs):
        report_pairs(ctx, rc, out, err, a)
    # ---- generator 2: Hypothesis state machine ----
    nruns = 5000 if thorough else 400
    sett = settings(max_examples=nruns, stateful_step_count=60 if thorough else 40, deadline=None, database=None,
                    derandomize=False, report_multiple_bugs=False, phases=[Phase.generate],
                    suppress_health_check=list(HealthCheck), print_blob=False)
    run_state_machine_as_test(hypothesis.seed(ctx.seed)(Machine), settings=sett)
    ctx.evaluations += STATS["queries"]
    ctx.nontrivial += len(STATS["nontrivial_keys"])
    ctx.count("machine_runs", STATS["runs"])
    ctx.count("machine_queries", STATS["queries"])
    ctx.count("runs_with_rebind", STATS["rebind"])
    ctx.count("runs_with_manager_eviction_or_sharing", STATS["evict"])
    ctx.count("runs_with_out_of_range_repeat", STATS["oor_repeat"])
    ctx.count("runs_with_first_call_print_or_abbrev", STATS["first_call_print"])
    for s in SAMPLES:
        ctx.sample(s)
    runs = max(1, STATS["runs"])
    if not FAILS and (STATS["rebind"] < 0.3 * runs or STATS["evict"] < 0.2 * runs or STATS["oor_repeat"] < 0.2 * runs):
        raise vt.HarnessError("generator degenerate: %r of %d runs" % (
            {k: STATS[k] for k in ("rebind", "evict", "oor_repeat")}, runs))
    # collect-then-shrink: one violation per bucket, minimised by ddmin
    by_bucket = {}
    for f in FAILS:
        b = by_bucket.setdefault(f["bucket"], f)
        if len(f["ops"]) < len(b["ops"]):
            by_bucket[f["bucket"]] = f
    for bucket, f in sorted(by_bucket.items()):
        small = rpcdrv.ddmin(DRV, f["ops"], bucket)
        ff = rpcdrv.run_history(DRV, small) or {"detail": f["failure"]}
        ctx.violation(bucket, {"ops": small, "failure": ff},
                      "history of %d ops (minimised from %d) gives a different answer than a fresh time zone: %s" %
                      (len(small), len(f["ops"]), json.dumps(ff, default=str)[:1200]))
    ctx.extra["failures_collected"] = len(FAILS)
    DRV.close()
    ctx.rule = ("(1) exhaustive: per zone every ordered pair of years 1998..2051 x every ordered pair of query kinds "
                "{off,delta,abbrev,odt,print} as a two-step history on one processor, plus A;B;A zone interleavings on a "
                "shared processor; (2) Hypothesis rule-based machine (processors, TimeZones bound to shared processors, "
                "managers with cache 1..4 over 2..8 zones, creation by name/id/index/info, queries incl. out-of-range, "
                "sentinel, Jan 1/Dec 31) on an ASan+UBSan build; each query is compared with the same query on a "
                "brand-new processor. Non-trivial = distinct (zone, state-before class [rebind/evict/oor-repeat/"
                "other-year/first-call], kind, year) + two-step histories with differing years")


if __name__ == "__main__":
    vt.main("C08", run)
