"""C11 - zone ids are djb2(name), unique, shared by all databases, and stable; registries complete and sorted."""
import importlib
import json
import os
import sys

import hypothesis
from hypothesis import given, settings, strategies as st, Phase, HealthCheck

import dblib
import vt


def djb2(s):
    h = 5381
    for c in s.encode("utf-8") if not isinstance(s, bytes) else s:
        h = (h * 33 + c) & 0xFFFFFFFF
    return h


def load_baseline():
    m = {}
    for line in open(os.path.join(vt.VERIF, "baselines", "zone_ids.tsv")):
        if line.startswith("#") or not line.strip():
            continue
        n, v = line.rstrip("\n").split("\t")
        m[n] = int(v, 16)
    return m


def check_database(ctx, db, zones, syms, symids, label, baseline, nt):
    """zones: decoded registry entries (in registry order); syms/symids: declared symbols."""
    names = [z["name"] for z in zones]
    seen_ids = {}
    for z in zones:
        ctx.evaluations += 1
        nt.add((label, z["name"]))
        if z["id"] != djb2(z["name"]):
            ctx.violation("id-not-djb2:%s:%s" % (label, z["name"]), {"db": label, "zone": z["name"], "id": z["id"]},
                          "%s %s: zoneId 0x%08x != djb2(name) 0x%08x" % (label, z["name"], z["id"], djb2(z["name"])))
        if z["id"] in seen_ids:
            ctx.violation("id-duplicate:%s:%s" % (label, z["name"]), {"db": label, "zones": [z["name"], seen_ids[z["id"]]]},
                          "%s: %s and %s share id 0x%08x" % (label, z["name"], seen_ids[z["id"]], z["id"]))
        seen_ids[z["id"]] = z["name"]
        if baseline is not None and z["name"] in baseline and baseline[z["name"]] != z["id"]:
            ctx.violation("id-changed:%s:%s" % (label, z["name"]), {"db": label, "zone": z["name"]},
                          "%s %s: id 0x%08x differs from the id recorded for earlier releases 0x%08x" %
                          (label, z["name"], z["id"], baseline[z["name"]]))
    # registry strictly ascending by name (byte order, as strcmp)
    for a, b in zip(names, names[1:]):
        ctx.evaluations += 1
        if not a.encode() < b.encode():
            ctx.violation("registry-order:%s:%s" % (label, b), {"db": label, "pair": [a, b]},
                          "%s registry not in strictly ascending name order: %r before %r" % (label, a, b))
    if syms is not None:
        zsyms = [s for s in syms if s["kind"] == "zone"]
        declared = sorted(s["declared"] for s in zsyms)
        if sorted(names) != declared:
            missing = sorted(set(declared) - set(names))
            extra = sorted(set(names) - set(declared))
            dup = sorted(n for n in set(names) if names.count(n) > 1)
            ctx.violation("registry-set:%s" % label, {"db": label, "missing": missing, "extra": extra, "dup": dup},
                          "%s registry does not list every declared zone exactly once: missing %s extra %s duplicated %s" %
                          (label, missing[:5], extra[:5], dup[:5]))
        addr_of = {z["name"]: z["addr"] for z in zones}
        for s in zsyms:
            ctx.evaluations += 1
            if s["name"] != s["declared"] or s["id"] != djb2(s["declared"]) or addr_of.get(s["declared"]) != s["addr"]:
                ctx.violation("symbol:%s:%s" % (label, s["symbol"]), {"db": label, "symbol": s},
                              "%s symbol %s declared for %s denotes name %s id 0x%08x (registry entry at %s, symbol at %s)" %
                              (label, s["symbol"], s["declared"], s["name"], s["id"], addr_of.get(s["declared"]), s["addr"]))
        for s in syms:
            if s["kind"] != "link":
                continue
            ctx.evaluations += 1
            nt.add((label, "link", s["declared"]))
            if s["addr"] != s["target_addr"] or s["name"] != s["target"] or s["id"] != djb2(s["target"]):
                ctx.violation("link:%s:%s" % (label, s["declared"]), {"db": label, "link": s},
                              "%s link %s -> %s denotes zone %s (id 0x%08x), address %s vs target %s" %
                              (label, s["declared"], s["target"], s["name"], s["id"], s["addr"], s["target_addr"]))
        for s in symids:
            ctx.evaluations += 1
            if s["value"] != djb2(s["declared"]) or s["value"] != s["literal"]:
                ctx.violation("idconst:%s:%s" % (label, s["symbol"]), {"db": label, "const": s},
                              "%s constant %s = 0x%08x but djb2(%s) = 0x%08x" % (label, s["symbol"], s["value"], s["declared"], djb2(s["declared"])))
        if sorted(s["declared"] for s in symids) != declared:
            ctx.violation("idconst-set:%s" % label, {"db": label}, "%s: kZoneId constants do not cover exactly the declared zones" % label)


NAMES_SOURCE = (
    "Rule\tPN\t1990\tmax\t-\tMar\tlastSun\t2:00\t1:00\tD\n"
    "Rule\tPN\t1990\tmax\t-\tOct\tlastSun\t3:00\t0\tS\n"
    "Zone\tEtc/GMT+5\t-5:00\t-\t-05\n"
    "Zone\tEtc/GMT-5\t5:00\t-\t+05\n"
    "Zone\tEtc/GMT\t0\t-\tGMT\n"
    "Zone\tTest/New-Town\t2:07\t-\tLMT\t1985\n\t\t\t2:00\tPN\tE%sT\n"
    "Zone\tTest/New_Town\t-5:07\t-\tLMT\t1985\n\t\t\t-5:00\t-\tEST\n"
    "Zone\tTest/Other\t1:07\t-\tLMT\t1985\n\t\t\t1:00\tPN\tC%sT\n"
    "Zone\tTest/A-B\t4:00\t-\t+04\n"
    "Zone\tTest/A_B_C\t6:00\t-\t+06\n"
    "Zone\tNOSLASH\t3:07\t-\tLMT\t1985\n\t\t\t3:00\t-\tMSK\n"
    # names whose djb2 value is 0, 1, 0x7fffffff, 0x80000000 and 0xffffffff (constructed by meet-in-the-middle; run() re-checks them)
    "Zone\tPacific/Erjseket\t10:00\t-\t+10\n"
    "Zone\tTest/Zdfxirrd\t10:30\t-\t+1030\n"
    "Zone\tTest/Zlqclaxl\t11:00\t-\t+11\n"
    "Zone\tTest/Zlqclaxm\t11:30\t-\t+1130\n"
    "Zone\tTest/Zxegbkfz\t12:00\t-\t+12\n"
    "Link\tEtc/GMT+5\tTest/FiveWest\n"
    "Link\tEtc/GMT-5\tTest/FiveEast\n"
    "Link\tEtc/GMT\tTest/Zero+Plus\n"
    "Link\tTest/New_Town\tTest/Newtown\n"
    "Link\tTest/Other\tTest/Alias\n"
    "Link\tTest/New-Town\tTest/NewTownAlias\n"
    "Link\tTest/Other\tTest/Twice\n"
    "Link\tNOSLASH\tTest/Twice\n"
    "Link\tTest/A-B\tTest/AB-Link\n")


def run(ctx):
    ctx.assumptions = ["independent djb2 (h = h*33 + c mod 2^32 from 5381), checked against the literals in tools/tests/test_transformer.py",
                       "baseline /verif/baselines/zone_ids.tsv records the ids published in the shipped 1.2.1 tables ('earlier releases')"]
    for s, v in (("", 5381), ("a", 177670), ("ab", 5863208), ("abcde", 252819604), ("Pacific/Erjseket", 0), ("Test/Zdfxirrd", 1),
                 ("Test/Zlqclaxl", 0x7FFFFFFF), ("Test/Zlqclaxm", 0x80000000), ("Test/Zxegbkfz", 0xFFFFFFFF)):
        if djb2(s) != v:
            raise vt.HarnessError("harness djb2 wrong")
    from tzdb import transformer as T
    baseline = load_baseline()
    nt = set()
    r = dblib.dump_shipped("C11")
    for db, label in (("x", "zonedbx"), ("b", "zonedb")):
        check_database(ctx, db, r["zones"][db], r["syms"][db], r["symids"][db], label, baseline, nt)
        if r["meta"][db]["registrySize"] != len(r["zones"][db]):
            ctx.violation("registry-size:" + label, {}, "registry size constant differs from the number of entries")
    # the other documented build configuration (ACE_TIME_USE_PROGMEM 0 in common/compat.h, which selects the second set of broker
    # accessors): the decoded databases must be identical to the default build
    import shutil
    import subprocess
    alt = os.path.join(vt.build_dir("C11"), "altrepo")
    shutil.copytree(os.path.join(vt.REPO, "src"), os.path.join(alt, "src"))
    cp = os.path.join(alt, "src", "ace_time", "common", "compat.h")
    txt = open(cp).read()
    if "#define ACE_TIME_USE_PROGMEM 1" not in txt:
        raise vt.HarnessError("compat.h no longer defines ACE_TIME_USE_PROGMEM 1")
    open(cp, "w").write(txt.replace("#define ACE_TIME_USE_PROGMEM 1", "#define ACE_TIME_USE_PROGMEM 0"))
    sym = os.path.join(vt.build_dir("C11"), "gen_symbols_alt.cpp")
    dblib.gen_symbols_cpp([("x", "zonedbx", "extended", os.path.join(alt, "src/ace_time/zonedbx/zone_infos.h")),
                           ("b", "zonedb", "basic", os.path.join(alt, "src/ace_time/zonedb/zone_infos.h"))], sym)
    exe_alt = vt.build("C11", "dumpdb_noprogmem", ["dumpdb.cpp"], extra=["-DVDB_SYMBOLS=1"], extra_sources=[sym], opt="-O1", repo=alt)
    rc, out, err = vt.run_exe(exe_alt, [], timeout=600)
    if rc != 0:
        ctx.violation("noprogmem-dump-crash", {}, "decoding the shipped databases in the ACE_TIME_USE_PROGMEM=0 build crashed: %s" % (err or "")[-400:])
    else:
        ra = dblib.parse_dump(out)
        strip = lambda z: {k: v for k, v in z.items() if k not in ("addr", "target_addr")}
        for db, label in (("x", "zonedbx"), ("b", "zonedb")):
            check_database(ctx, db, ra["zones"][db], ra["syms"][db], ra["symids"][db], label + "-noprogmem", baseline, nt)
            za, zb = [strip(z) for z in ra["zones"][db]], [strip(z) for z in r["zones"][db]]
            ctx.evaluations += len(za)
            if za != zb:
                bad = next((a_["name"] for a_, b_ in zip(za, zb) if a_ != b_), "?")
                ctx.violation("noprogmem-differs:" + label, {"db": label, "first_zone": bad},
                              "%s decodes differently with ACE_TIME_USE_PROGMEM=0 (first differing zone %s)" % (label, bad))
    # same name -> same id across databases
    ids = {}
    for db in ("x", "b"):
        for z in r["zones"][db]:
            ids.setdefault(z["name"], {})[db] = z["id"]
    for n, d in ids.items():
        if len(set(d.values())) > 1:
            ctx.violation("id-differs-across-db:" + n, {"zone": n, "ids": d}, "%s has different ids in zonedb and zonedbx: %r" % (n, d))
    # boundary values of the hash
    for n in ("Pacific/Erjseket", "Test/Zdfxirrd", "Test/Zlqclaxl", "Test/Zlqclaxm", "Test/Zxegbkfz", ""):
        ctx.evaluations += 1
        if T.hash_name(n) != djb2(n):
            ctx.violation("hash_name-boundary:" + (n or "empty"), {"name": n}, "hash_name(%r) = 0x%08x, djb2 = 0x%08x" % (n, T.hash_name(n), djb2(n)))
    # every baseline name still has its id wherever it is still shipped
    for n, v in baseline.items():
        ctx.evaluations += 1
        if T.hash_name(n) != v:
            ctx.violation("hash_name-baseline:" + n, {"zone": n}, "hash_name(%r) = 0x%08x, recorded id 0x%08x" % (n, T.hash_name(n), v))
    # the Python database
    sys.path.insert(0, os.path.join(vt.REPO, "tools"))
    zi = importlib.import_module("zonedbpy.zone_infos")
    pyids = {}
    for n, info in zi.ZONE_INFO_MAP.items():
        ctx.evaluations += 1
        nt.add(("zonedbpy", n))
        h = T.hash_name(n)
        if info["name"] != n:
            ctx.violation("zonedbpy-name:" + n, {"zone": n}, "zonedbpy entry %r carries name %r" % (n, info["name"]))
        if h != djb2(n) or (n in ids and h not in ids[n].values()) or (n in baseline and baseline[n] != h):
            ctx.violation("zonedbpy-id:" + n, {"zone": n}, "zonedbpy zone %s: hash_name 0x%08x, djb2 0x%08x, C++ ids %r" % (n, h, djb2(n), ids.get(n)))
        if h in pyids:
            ctx.violation("zonedbpy-dup:" + n, {"zones": [n, pyids[h]]}, "zonedbpy: %s and %s share an id" % (n, pyids[h]))
        pyids[h] = n
    # freshly compiled databases: the source reconstructed from the shipped tables, and a small source whose names exercise the
    # identifier normalisation ('+', '-', '_', names that normalise to the same identifier, links to each of them)
    import compilelib
    import tzoracle
    work = vt.build_dir("C11")
    for scope, dbdir, letter, bns in (("extended", "zonedbx", "x", "extended"), ("basic", "zonedb", "b", "basic")):
        for corpus, src in (("recon", tzoracle.reconstruct_source(dbdir)[0]), ("names", NAMES_SOURCE)):
            tag = "%s-%s" % (corpus, dbdir)
            ns = "fresh" + letter + corpus[0]
            rr = compilelib.compile_source(work, "fresh_%s_%s" % (corpus, scope), src, scope, "arduino", db_namespace=ns, actions="zonedb,tzdb")
            if rr["rc"] != 0:
                if corpus == "recon":
                    raise vt.HarnessError("tzcompiler failed on the reconstructed source: " + rr["log"][-500:])
                ctx.violation("fresh-compiler-failed:" + tag, {"source": src, "scope": scope}, "tzcompiler.py failed on the names source (%s): %s" % (scope, rr["log"][-600:]))
                continue
            sym = os.path.join(work, "gen_symbols_%s_%s.cpp" % (corpus, letter))
            dblib.gen_symbols_cpp([(letter, ns, bns, os.path.join(rr["outdir"], "zone_infos.h"))], sym)
            # the symbol TU needs the generated headers
            with open(sym) as f:
                body = f.read()
            with open(sym, "w") as f:
                f.write('#include "%s"\n#include "%s"\n' % (os.path.join(rr["outdir"], "zone_policies.h"), os.path.join(rr["outdir"], "zone_infos.h")) + body)
            try:
                exe = compilelib.build_with_generated("C11", "dump_fresh_%s_%s" % (corpus, letter), "dumpdb.cpp",
                                                      x_out=rr["outdir"] if letter == "x" else None, x_ns=ns,
                                                      b_out=rr["outdir"] if letter == "b" else None, b_ns=ns,
                                                      extra=["-DVDB_SYMBOLS=1"], extra_sources=[sym], opt="-O0")
            except compilelib.GeneratedDoesNotCompile as e:
                ctx.violation("fresh-not-compilable:" + tag, {"source": src if corpus == "names" else None, "scope": scope},
                              "the %s database generated from the %s source is not valid C++ (identifiers / id constants not unique?): %s" % (scope, corpus, str(e)[:700]))
                continue
            rc, out, err = vt.run_exe(exe, [], timeout=600)
            if rc != 0:
                ctx.violation("fresh-dump-crash:" + tag, {}, "decoding the freshly compiled %s database (%s) crashed: %s" % (scope, corpus, (err or "")[-400:]))
                continue
            fr = dblib.parse_dump(out)
            check_database(ctx, letter, fr["zones"][letter], fr["syms"][letter], fr["symids"][letter], "fresh-" + tag, baseline if corpus == "recon" else None, nt)
            if corpus == "recon":
                shipped_ids = {z["name"]: z["id"] for z in r["zones"][letter]}
                for z in fr["zones"][letter]:
                    if z["name"] in shipped_ids and shipped_ids[z["name"]] != z["id"]:
                        ctx.violation("fresh-id:%s:%s" % (scope, z["name"]), {"zone": z["name"]}, "freshly compiled id differs from the shipped id")
                continue
            # names corpus: every emitted link denotes the target the source gives it; zones and links agree with tzdb.json
            tz = compilelib.load_tzdb_json(rr["outdir"])
            src_links = {}
            for line in src.splitlines():
                f = line.split()
                if f and f[0] == "Link":
                    src_links[f[2]] = f[1]
            got_links = {s_["declared"]: s_["name"] for s_ in fr["syms"][letter] if s_["kind"] == "link"}
            for alias, target in sorted(tz["links_map"].items()):
                ctx.evaluations += 1
                if src_links.get(alias) != target or got_links.get(alias) != target:
                    ctx.violation("fresh-link-target:%s:%s" % (tag, alias), {"source": src, "scope": scope, "link": alias},
                                  "%s: link %s is %s in the source, %s in tzdb.json and denotes zone %s in the compiled database" %
                                  (tag, alias, src_links.get(alias), target, got_links.get(alias)))
            if sorted(z["name"] for z in fr["zones"][letter]) != sorted(tz["zones_map"]):
                ctx.violation("fresh-zone-set:" + tag, {"source": src, "scope": scope}, "%s: compiled registry and tzdb.json list different zones" % tag)
            # the Python-language database of the same source: every name maps to the entry carrying that name
            rp = compilelib.compile_source(work, "freshpy_%s_%s" % (corpus, scope), src, scope, "python", actions="zonedb")
            if rp["rc"] != 0:
                ctx.violation("fresh-python-compiler-failed:" + tag, {"source": src, "scope": scope}, "tzcompiler.py --language python failed: %s" % rp["log"][-500:])
                continue
            import types
            mods = {}
            for mn in ("zone_policies", "zone_infos"):
                code = open(os.path.join(rp["outdir"], mn + ".py")).read().replace("from zonedb.zone_policies import", "from c11fresh_zone_policies import").replace(
                    "from .zone_policies import", "from c11fresh_zone_policies import")
                m_ = types.ModuleType("c11fresh_" + mn)
                sys.modules["c11fresh_" + mn] = m_
                exec(compile(code, os.path.join(rp["outdir"], mn + ".py"), "exec"), m_.__dict__)
                mods[mn] = m_
            for n, info in mods["zone_infos"].ZONE_INFO_MAP.items():
                ctx.evaluations += 1
                nt.add(("fresh-python-" + tag, n))
                if info["name"] != n:
                    ctx.violation("fresh-python-name:%s:%s" % (tag, n), {"source": src, "scope": scope, "zone": n},
                                  "%s: the generated Python database maps %r to the entry of %r" % (tag, n, info["name"]))
            if sorted(mods["zone_infos"].ZONE_INFO_MAP) != sorted(tz["zones_map"]):
                ctx.violation("fresh-python-zone-set:" + tag, {"source": src, "scope": scope}, "%s: Python database and tzdb.json list different zones" % tag)
            for mn in ("zone_policies", "zone_infos"):
                sys.modules.pop("c11fresh_" + mn, None)
    # two zone names with the same djb2 value through the whole compiler, in both scopes: it must refuse the source or emit
    # a database whose ids are unique
    if djb2("Test/Az") != djb2("Test/BY"):
        raise vt.HarnessError("collision pair wrong")
    csrc = "Zone\tTest/Az\t1:00\t-\tAAA\nZone\tTest/BY\t2:00\t-\tBBB\nZone\tTest/Other\t3:00\t-\tCCC\n"
    for scope in ("extended", "basic"):
        rr = compilelib.compile_source(work, "collide_" + scope, csrc, scope, "arduino", db_namespace="col" + scope[0], actions="zonedb,tzdb")
        ctx.evaluations += 1
        nt.add(("collision-through-compiler", scope))
        if rr["rc"] == 0:
            tzc = compilelib.load_tzdb_json(rr["outdir"])
            emitted_ = sorted(tzc["zones_map"])
            if len(set(djb2(n_) for n_ in emitted_)) != len(emitted_):
                ctx.violation("collision-emitted:" + scope, {"source": csrc, "scope": scope, "emitted": emitted_},
                              "%s scope: the compiler emitted %s although Test/Az and Test/BY have the same djb2 id 0x%08x" % (scope, emitted_, djb2("Test/Az")))
    # generated: hash_name == djb2 on arbitrary names; collision detection fires iff two names collide
    pos = [0, 0, 0]

    @hypothesis.seed(ctx.seed)
    @settings(max_examples=3000 if ctx.tier == "thorough" else 600, deadline=None, database=None, phases=[Phase.generate],
              suppress_health_check=list(HealthCheck))
    @given(st.lists(st.text(alphabet=st.characters(min_codepoint=33, max_codepoint=126), min_size=1, max_size=40), min_size=1,
                    max_size=12, unique=True), st.booleans(), st.integers(0, 10**6))
    def gen(names, collide, k):
        for n in names:
            ctx.evaluations += 1
            if T.hash_name(n) != djb2(n):
                ctx.violation("hash_name:" + n, {"name": n}, "hash_name(%r) = %d, djb2 = %d" % (n, T.hash_name(n), djb2(n)))
        names = list(names)
        if collide:
            # djb2(p + c1 c2) == djb2(p + (c1+1)(c2-33)): a constructed colliding pair
            base = names[k % len(names)]
            c1, c2 = chr(65 + k % 20), chr(98 + (k // 20) % 20)
            a, b = base + c1 + c2, base + chr(ord(c1) + 1) + chr(ord(c2) - 33)
            assert djb2(a) == djb2(b) and a != b
            # the colliding pair goes to drawn positions, including the very first
            names.insert(k % (len(names) + 1), a)
            names.insert((k // 7) % (len(names) + 1), b)
            if (k % (len(names) - 1) == 0) or names[0] in (a, b):
                pos[2] += 1
        hs = [djb2(n) for n in names]
        has_collision = len(set(hs)) != len(set(names))
        tr = T.Transformer({}, {}, {}, "extended", 2000, 2050, 60, 900, True)
        try:
            tr._detect_hash_collisions({n: [] for n in names})
            raised = False
        except Exception:
            raised = True
        pos[0] += 1
        if has_collision:
            pos[1] += 1
            nt.add(("collision", a, b))
        if raised != has_collision:
            ctx.violation("collision-detection:%s" % has_collision, {"names": names},
                          "_detect_hash_collisions raised=%s although collision=%s for %r" % (raised, has_collision, names[-3:]))

    gen()
    ctx.count("hash_cases", pos[0])
    ctx.count("collision_positive_cases", pos[1])
    ctx.count("collision_cases_with_first_name_involved", pos[2])
    if pos[1] < 20:
        raise vt.HarnessError("too few collision-positive cases: %d" % pos[1])
    ctx.nontrivial = len(nt)
    ctx.exhaustive = True
    ctx.sample({"zone": "America/Los_Angeles", "id": "0x%08x" % djb2("America/Los_Angeles")})
    ctx.sample({"link": "US/Pacific -> America/Los_Angeles", "check": "&kZoneUS_Pacific == &kZoneAmerica_Los_Angeles"})
    ctx.sample({"colliding_names": ["xAb", "xBA"], "djb2": djb2("xAb")})
    ctx.rule = ("every registry entry, declared zone symbol, link symbol and kZoneId constant of zonedb and zonedbx (decoded by the "
                "brokers; symbols through a TU generated from zone_infos.h), every zonedbpy name and every baseline name: id == "
                "djb2(name), unique per database, equal across databases and baseline, registry strictly ascending and equal to the "
                "declared set, link address == target address; Hypothesis names for hash_name and constructed collisions for "
                "_detect_hash_collisions. Non-trivial = distinct (database, zone/link) entries + collision-positive cases")


if __name__ == "__main__":
    vt.main("C11", run)
