"""C17 - TimePeriod, TimeOffset and mutation helpers keep stated ranges and inverses."""
import json

import vt

LO, HI = -921599, 921599


def period_job(a):
    exe, lo, hi = a
    rc, out, err = vt.run_exe(exe, ["periods", lo, hi], timeout=1200)
    bad = []
    n = 0
    nt = 0
    if rc != 0:
        return 0, 0, [("crash", "periods %d..%d rc=%s %s" % (lo, hi, rc, (err or "")[-300:]))]
    for line in out.splitlines():
        left, right = line[2:].split("|")
        s, h, m, sec, sign, back = [int(x) for x in left.split()]
        nh, nm, ns, nsign, nback = [int(x) for x in right.split()]
        n += 1
        a_ = abs(s)
        ok = (back == s and m < 60 and sec < 60 and sign in (-1, 1) and h == a_ // 3600 and m == a_ // 60 % 60
              and sec == a_ % 60 and (sign == -1) == (s < 0)
              and (nh, nm, ns) == (h, m, sec) and nsign == -sign and nback == -s)
        if s < 0 or a_ % 60 == 59 or a_ % 3600 == 3599:
            nt += 1
        if not ok and len(bad) < 5:
            bad.append(("period:%d" % s, line))
    return n, nt, bad


def run(ctx):
    ctx.assumptions = ["oracle: Python integer arithmetic written from the header documentation",
                       "the shim's incrementMod/incrementModOffset reproduce AceCommon (trusted)"]
    exe = vt.build("C17", "misc", ["misc.cpp"])
    if ctx.replay:
        r = json.load(open(ctx.replay))["replay"]
        ctx.evaluations = 1
    # 1. all periods
    jobs = []
    step = (HI - LO + 1) // 32 + 1
    for i in range(32):
        lo = LO + i * step
        hi = min(HI, lo + step - 1)
        jobs.append((exe, lo, hi))
    total = 0
    for n, nt, bad in vt.pmap(period_job, jobs):
        total += n
        ctx.nontrivial += nt
        for key, line in bad:
            ctx.violation(key, {"line": line}, "TimePeriod: " + line)
    if total != HI - LO + 1 and not ctx.violations:
        raise vt.HarnessError("period table incomplete: %d" % total)
    ctx.evaluations += total
    ctx.count("periods", total)
    # 2. compareTo pairs
    rc, out, err = vt.run_exe(exe, ["compare", 907, ctx.seed % 907], timeout=1200)
    if rc != 0:
        ctx.violation("crash-compare", {}, "compare crashed rc=%s" % rc)
    for line in (out or "").splitlines():
        if line.startswith("MISMATCH"):
            ctx.violation("compare:" + "_".join(line.split()[2:4]), {"line": line}, line)
        elif line.startswith("COMPARE"):
            kv = dict(x.split("=") for x in line.split()[1:])
            ctx.evaluations += int(kv["n"])
            ctx.count("compare_pairs", int(kv["n"]))
    # 3. offsets
    rc, out, err = vt.run_exe(exe, ["offsets"], timeout=600)
    if rc != 0:
        ctx.violation("crash-offsets", {}, "offsets crashed rc=%s %s" % (rc, (err or "")[-300:]))
    seen_cycle = {}
    for line in (out or "").splitlines():
        f = line.split()
        ctx.evaluations += 1
        if f[0] == "O":
            h, m, mins, secs, bh, bm, e = [int(x) for x in f[1:]]
            consistent = (h >= 0 and m >= 0) or (h <= 0 and m <= 0)
            if consistent and abs(m) <= 59:
                ctx.count("hour_minute_pairs")
                if abs(h) >= 100 or (h == 0 and m < 0) or abs(m) == 59:
                    ctx.nontrivial += 1
                if mins != h * 60 + m or secs != 60 * mins or (bh, bm) != (h, m) or e:
                    ctx.violation("offset:%d:%d" % (h, m), {"line": line},
                                  "TimeOffset::forHourMinute(%d,%d): minutes=%d seconds=%d toHourMinute=(%d,%d) err=%d" %
                                  (h, m, mins, secs, bh, bm, e))
        elif f[0] == "M":
            v, mins, secs, e, z = [int(x) for x in f[1:]]
            if mins != v or secs != 60 * v or e != (1 if v == -32768 else 0) or z != (1 if v == 0 else 0):
                ctx.violation("minutes:%d" % v, {"line": line}, "TimeOffset::forMinutes(%d): %s" % (v, line))
        elif f[0] == "H":
            h, mins = int(f[1]), int(f[2])
            if mins != 60 * h:
                ctx.violation("hours:%d" % h, {"line": line}, "TimeOffset::forHours(%d) -> %d minutes" % (h, mins))
        elif f[0] == "I":
            v, r = int(f[1]), int(f[2])
            if -960 <= v <= 960:
                want = v + 15 if v + 15 <= 960 else -960
                seen_cycle[v] = r
                if r != want or not (-960 <= r <= 960):
                    ctx.violation("inc15:%d" % v, {"line": line}, "increment15Minutes(%d) -> %d, want %d" % (v, r, want))
    # the cycle from -16:00
    v, visited = -960, []
    for _ in range(200):
        visited.append(v)
        v = seen_cycle.get(v, None)
        if v is None or v == -960:
            break
    if v != -960 or len(visited) != 129 or len(set(visited)) != 129 or any(x % 15 for x in visited):
        ctx.violation("inc15-cycle", {"visited": visited[:140]},
                      "increment15Minutes does not cycle through the 129 quarter-hour offsets -16:00..+16:00: %d visited" % len(visited))
    # 4. mutation helpers
    rc, out, err = vt.run_exe(exe, ["mutations"], timeout=600)
    if rc != 0:
        ctx.violation("crash-mutations", {}, "mutations crashed rc=%s %s" % (rc, (err or "")[-300:]))
    for line in (out or "").splitlines():
        f = line.split()
        k = f[0]
        v = [int(x) for x in f[1:]]
        ctx.evaluations += 1
        want = None
        inside = False
        if k == "Y":
            inside = 0 <= v[0] <= 99
            want = (v[0] + 1) % 100
            got = v[1]
        elif k == "Mo":
            inside = 1 <= v[0] <= 12
            want = v[0] % 12 + 1
            got = v[1]
        elif k == "D":
            inside = 1 <= v[0] <= 31
            want = v[0] % 31 + 1
            got = v[1]
        elif k == "Hr":
            inside = 0 <= v[0] <= 23
            want = (v[0] + 1) % 24
            got = v[1]
            if inside and tuple(v[2:]) != (2010, 5, 6, 8):
                ctx.violation("mut:Hr-side:%d" % v[0], {"line": line}, "incrementHour changed another field: " + line)
        elif k == "Mi":
            inside = 0 <= v[0] <= 59
            want = (v[0] + 1) % 60
            got = v[1]
            if inside and tuple(v[2:]) != (7, 9):
                ctx.violation("mut:Mi-side:%d" % v[0], {"line": line}, "incrementMinute changed another field: " + line)
        elif k == "PMi":
            inside = 0 <= v[0] <= 59
            want = (v[0] + 1) % 60
            got = v[1]
            if inside and tuple(v[2:]) != (1, 3, 1):
                ctx.violation("mut:PMi-side:%d" % v[0], {"line": line}, "period incrementMinute changed another field: " + line)
        elif k == "PH24":
            inside = 0 <= v[0] <= 23
            want = (v[0] + 1) % 24
            got = v[1]
            if inside and v[2] != -1:
                ctx.violation("mut:PH24-sign:%d" % v[0], {"line": line}, "period incrementHour changed the sign: " + line)
        elif k == "PH":
            inside = 0 <= v[0] < v[1]
            want = (v[0] + 1) % v[1]
            got = v[2]
            if inside and v[3] != 2:
                ctx.violation("mut:PH-side", {"line": line}, "period incrementHour(limit) changed the minute: " + line)
        # every start value 0..255 of an unsigned field must end up inside the documented interval (the property quantifies
        # over all field values 0..255); the signed yearTiny is only examined from inside its interval
        lo_hi = {"Mo": (1, 12), "D": (1, 31), "Hr": (0, 23), "Mi": (0, 59), "PMi": (0, 59), "PH24": (0, 23)}.get(k)
        if k == "PH":
            lo_hi = (0, v[1] - 1)
        if lo_hi is not None and not inside:
            ctx.count("mutation_cases_from_outside_interval")
            if not lo_hi[0] <= got <= lo_hi[1]:
                ctx.violation("mut-range:%s:%s" % (k, v[0] if k != "PH" else "limit"), {"line": line},
                              "increment helper %s left the field at %d, outside [%d, %d], starting from %d: %s" % (k, got, lo_hi[0], lo_hi[1], v[0], line))
        if inside:
            ctx.count("mutation_cases_inside_interval")
            if want == 0 or (k in ("Mo", "D") and want == 1):
                ctx.nontrivial += 1
            if got != want:
                ctx.violation("mut:%s:%s" % (k, "_".join(str(x) for x in v[:2])), {"line": line},
                              "increment helper %s: %s, want %d" % (k, line, want))
    ctx.exhaustive = True
    ctx.sample({"period_seconds": -3661, "expect": {"sign": -1, "hour": 1, "minute": 1, "second": 1}})
    ctx.sample({"offset_parts": [0, -30], "expect_minutes": -30})
    ctx.sample({"increment15Minutes": [960, -960]})
    ctx.rule = ("exhaustive: all 1,843,199 second counts (round trip, field ranges, negate); about 2,050^2 ordered pairs for compareTo/"
                "==/!= (stratified subset with seed phase + boundaries); all int8 (hour, minute) pairs, all int16 minute values, all "
                "offsets -1000..1000 for increment15Minutes and its 129-step cycle; every start value 0..255 of every increment "
                "helper (every limit 1..255). Non-trivial = negative / roll-over periods, sub-hour negative and three-digit-hour "
                "offsets, wrap points of the helpers")


if __name__ == "__main__":
    vt.main("C17", run)
