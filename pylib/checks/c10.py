"""C10 - zone lookup by name, id and index is exact and always terminates."""
import json
import random

import hypothesis
from hypothesis import given, settings, strategies as st, Phase, HealthCheck

import rpcdrv
import sweeplib
import vt

NAMES = {"b": [], "x": []}
IDS = {"b": [], "x": []}
TIMEOUT = 1.0
MAX_FAILS = 40


def djb2(s):
    h = 5381
    for c in s.encode("latin-1"):
        h = (h * 33 + c) & 0xFFFFFFFF
    return h


class Runner:
    def __init__(self, ctx, drv):
        self.ctx, self.drv = ctx, drv
        self.nt = set()
        self.nfail = 0

    def fail(self, key, reg, query, msg):
        self.ctx.violation(key, {"db": reg["db"], "size": reg["cache"], "zones": reg["zones"], "query": query}, msg)

    def ask(self, reg, line, query):
        if self.nfail >= MAX_FAILS:
            return None
        try:
            return self.drv.cmd(line, timeout=TIMEOUT)
        except rpcdrv.Hang:
            self.nfail += 1
            self.fail("hang:%s:%s" % (reg["shape"], query[0]), reg, query,
                      "lookup did not terminate within %.0f s: registry %s of size %d, query %r" %
                      (TIMEOUT, reg["shape"], len(reg["zones"]), query))
            self.mk(reg)
            return None
        except rpcdrv.Crash as c:
            self.nfail += 1
            self.fail("crash:%s:%s:%s" % (reg["shape"], query[0], c.bucket()[:60]), reg, query,
                      "lookup crashed: registry %s of size %d, query %r: %s" %
                      (reg["shape"], len(reg["zones"]), query, c.stderr[-900:]))
            self.mk(reg)
            return None

    def mk(self, reg):
        self.drv.cmd("RESET")
        r = self.drv.cmd("MGR %s %d %d %s" % (reg["db"], reg["cache"], len(reg["zones"]),
                                            " ".join(str(z) for z in reg["zones"])))
        reg["mgr"] = int(r)

    def check_registry(self, reg, only_query=None):
        """reg: dict(db, cache, zones=[zone idx...], shape)"""
        ctx = self.ctx
        db = reg["db"]
        names = [NAMES[db][z] for z in reg["zones"]]
        ids = [IDS[db][z] for z in reg["zones"]]
        n = len(names)
        self.mk(reg)
        m = reg["mgr"]
        r = self.ask(reg, "IDX %d size" % m, ("size",))
        ctx.evaluations += 1
        if r is not None and int(r) != n:
            self.fail("size", reg, ("size",), "registrySize()=%s want %d" % (r, n))
        queries = []
        srt = sorted(names)
        qn = set(names)
        qn.update(["", "A", "\x01", "zzz", "~"])
        for g in range(n):
            qn.add(srt[g] + "!")          # strictly between srt[g] and its successor
            qn.add(srt[g][:-1])           # proper prefix
            qn.add(srt[g] + "x")          # proper extension
            qn.add(srt[g].lower())
            # an absent name with the same djb2 hash as a present one: h(p + c1 c2) == h(p + (c1+1)(c2-33))
            nm = srt[g]
            if len(nm) >= 2 and ord(nm[-1]) - 33 >= 33:
                col = nm[:-2] + chr(ord(nm[-2]) + 1) + chr(ord(nm[-1]) - 33)
                if djb2(col) == djb2(nm):
                    qn.add(col)
        qn.update(reg.get("extra_names", []))
        for nm in sorted(qn):
            queries.append(("name", nm))
        qi = set(ids) | {0, 0xFFFFFFFF, 5381}
        for i in ids:
            qi.update(((i + 1) & 0xFFFFFFFF, (i - 1) & 0xFFFFFFFF))
        for i in sorted(qi):
            queries.append(("id", i))
        for i in list(range(n + 2)) + [0xFFFF, 255, 256]:
            queries.append(("index", i))
        if only_query:
            queries = [tuple(only_query)]
        sorted_reg = all(names[i] <= names[i + 1] for i in range(n - 1)) and n > 0
        for q in queries:
            ctx.evaluations += 1
            if q[0] == "name":
                want = names.index(q[1]) if q[1] in names else 0xFFFF
                # duplicates are never generated, so index() is the unique match
                r = self.ask(reg, "IDX %d name %s" % (m, rpcdrv.hexname(q[1])), q)
                if r is None:
                    continue
                if int(r) != want:
                    self.fail("name:%s:%s" % (reg["shape"], "present" if want != 0xFFFF else "absent"), reg, q,
                              "findIndexForName(%r) = %s, want %d (registry %s size %d)" % (q[1], r, want, reg["shape"], n))
                if want == 0xFFFF and sorted_reg and n >= 6:
                    import bisect
                    self.nt.add((n, reg["shape"], bisect.bisect_left(srt, q[1])))
                r2 = self.ask(reg, "MTZ %d name %s" % (m, rpcdrv.hexname(q[1])), q)
                self.check_tz(reg, q, r2, want, names, ids)
            elif q[0] == "id":
                want = ids.index(q[1]) if q[1] in ids else 0xFFFF
                r = self.ask(reg, "IDX %d id %d" % (m, q[1]), q)
                if r is None:
                    continue
                if int(r) != want:
                    self.fail("id:%s" % reg["shape"], reg, q, "findIndexForId(%#x) = %s, want %d" % (q[1], r, want))
                r2 = self.ask(reg, "MTZ %d id %d" % (m, q[1]), q)
                self.check_tz(reg, q, r2, want, names, ids)
            else:
                want = q[1] if q[1] < n else 0xFFFF
                r2 = self.ask(reg, "MTZ %d index %d" % (m, q[1]), q)
                self.check_tz(reg, q, r2, want, names, ids)

    def check_tz(self, reg, q, r2, want, names, ids):
        if r2 is None:
            return
        tzid, typ = r2.split()
        if want == 0xFFFF:
            if typ != "0":
                self.fail("mgr-notfound:%s" % q[0], reg, q, "manager did not return the error zone for %r (type %s)" % (q, typ))
            return
        want_type = "4" if reg["db"] == "b" else "5"   # kTypeBasicManaged / kTypeExtendedManaged
        zid = self.ask(reg, "Q %s id" % tzid, q)
        pr = self.ask(reg, "Q %s print" % tzid, q)
        if zid is None or pr is None:
            return
        if typ != want_type or int(zid) != ids[want] or pr != '"%s"' % names[want]:
            self.fail("mgr-found:%s" % q[0], reg, q,
                      "manager returned type %s id %s name %s for %r; want type %s id %d name %s" %
                      (typ, zid, pr, q, want_type, ids[want], names[want]))


def run(ctx):
    ctx.assumptions = [
        "oracle = linear scan with exact string / integer equality over the registry's names and ids (Python)",
        "ASan+UBSan build: reads outside the registry array are reported by the sanitizer; a lookup that does not "
        "answer within 1 s is a hang; exploration stops early after 40 hangs/crashes",
        "registries never contain duplicate entries",
    ]
    exe = vt.build("C10", "rpc_san", ["rpc.cpp"], sanitize=True)
    sw = sweeplib.build_sweep("C10", "sweep_list")
    for db in ("b", "x"):
        NAMES[db] = sweeplib.list_zones(sw, db)
        IDS[db] = [djb2(n) for n in NAMES[db]]
    drv = rpcdrv.Driver(exe)
    R = Runner(ctx, drv)
    if ctx.replay:
        r = json.load(open(ctx.replay))["replay"]
        reg = dict(db=r["db"], cache=r["size"], zones=r["zones"], shape="replay")
        R.check_registry(reg, only_query=r["query"])
        drv.close()
        return
    thorough = ctx.tier == "thorough"
    rnd = random.Random(ctx.seed)
    nreg = 0
    samples = []
    for db in ("b", "x"):
        total = len(NAMES[db])
        for n in range(0, 41):
            regs = [("prefix", list(range(n)))]
            regs.append(("sorted-subset", sorted(rnd.sample(range(total), n))))
            regs.append(("sorted-tail", list(range(total - n, total))))
            for k in range(20 if thorough else 3):
                z = rnd.sample(range(total), n)
                regs.append(("shuffled", z))
            if n >= 2:
                z = sorted(rnd.sample(range(total), n))
                z[-1], z[-2] = z[-2], z[-1]
                regs.append(("last-pair-swapped", z))
                z = sorted(rnd.sample(range(total), n))
                z[0], z[1] = z[1], z[0]
                regs.append(("first-pair-swapped", z))
            for shape, z in regs:
                reg = dict(db=db, cache=rnd.randint(1, 4), zones=z, shape=shape)
                R.check_registry(reg)
                nreg += 1
                ctx.count("registries_" + shape)
                if len(samples) < 3 and n in (7, 12) and shape != "prefix":
                    samples.append({"db": db, "shape": shape, "zones": [NAMES[db][i] for i in z]})
        # the full shipped registry
        reg = dict(db=db, cache=2, zones=list(range(total)), shape="full")
        R.check_registry(reg)
        nreg += 1
    # Hypothesis-generated arbitrary query strings (incl. bytes >= 0x80) against mid-size sorted registries
    regs = {}
    for db in ("b", "x"):
        z = sorted(rnd.sample(range(len(NAMES[db])), 17))
        regs[db] = dict(db=db, cache=2, zones=z, shape="sorted-subset")
    fuzz_n = [0]

    @hypothesis.seed(ctx.seed)
    @settings(max_examples=2000 if thorough else 300, deadline=None, database=None, phases=[Phase.generate],
              suppress_health_check=list(HealthCheck))
    @given(db=st.sampled_from(["b", "x"]),
           names=st.lists(st.one_of(
               st.binary(min_size=1, max_size=24).map(lambda b: b.replace(b"\x00", b"\x01").decode("latin-1")),
               st.builds(lambda i, cut, suf: (NAMES["x"][i % len(NAMES["x"])][:cut] + suf),
                         st.integers(0, 1000), st.integers(0, 30), st.text(alphabet="/_-+AZaz09~\x7f\x80\xff", max_size=3))),
               min_size=1, max_size=8))
    def fuzz(db, names):
        reg = dict(regs[db])
        present = set(NAMES[db][z] for z in reg["zones"])
        reg["extra_names"] = names
        fuzz_n[0] += len(names)
        # only the generated names (present ones are filtered by the oracle anyway)
        for nm in names:
            R.check_registry(reg, only_query=("name", nm))

    fuzz()
    ctx.count("hypothesis_query_strings", fuzz_n[0])
    ctx.nontrivial = len(R.nt)
    ctx.extra["registries"] = nreg
    for s in samples:
        ctx.sample(s)
    ctx.sample({"absent_name_classes": ["<prev>!", "<name minus last char>", "<name>x", "lower-case", "", "A", "\\x01", "zzz"]})
    ctx.exhaustive = False
    ctx.rule = ("registries of size 0..40 from the shipped zones of each database: sorted prefix, sorted tail, sorted random "
                "subset, shuffled subsets, sorted with first / last pair swapped, and the two full registries; queries: every "
                "present name, an absent name inside every gap (prev+'!'), below the first, above the last, empty, proper "
                "prefixes/extensions, an absent name with the same djb2 hash as each present name, every present id, 0, 0xFFFFFFFF, id+-1, indices 0..n+1, 255, 256, 0xFFFF, plus "
                "Hypothesis-drawn byte strings; each through indexFor*/createFor*. Non-trivial = distinct (size, shape, gap "
                "index) of absent names on sorted registries of size >= 6 (the binary-search path)")
    drv.close()


if __name__ == "__main__":
    vt.main("C10", run)
