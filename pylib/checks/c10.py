"""C10 - zone lookup by name, id and index is exact and always terminates."""
import json
import random

import hypothesis
from hypothesis import given, settings, strategies as st, Phase, HealthCheck

import rpcdrv
import sweeplib
import vt

NAMES = {"b": [], "x": []}
IDS = {"b": [], "x": []}
TIMEOUT = 1.0
MAX_FAILS = 40


def djb2(s):
    h = 5381
    for c in s.encode("latin-1"):
        h = (h * 33 + c) & 0xFFFFFFFF
    return h


class Runner:
    def __init__(self, ctx, drv):
        self.ctx, self.drv = ctx, drv
        self.nt = set()
        self.nfail = 0

    def fail(self, key, reg, query, msg):
        self.ctx.violation(key, {"db": reg["db"], "size": reg["cache"], "zones": reg["zones"], "query": query}, msg)

    def ask(self, reg, line, query):
        if self.nfail >= MAX_FAILS:
            return None
        try:
            return self.drv.cmd(line, timeout=TIMEOUT)
        except rpcdrv.Hang:
            self.nfail += 1
            self.fail("hang:%s:%s" % (reg["shape"], query[0]), reg, query,
                      "lookup did not terminate within %.0f s: registry %s of size %d, query %r" %
                      (TIMEOUT, reg["shape"], len(reg["zones"]), query))
            self.mk(reg)
            return None
        except rpcdrv.Crash as c:
            self.nfail += 1
            self.fail("crash:%s:%s:%s" % (reg["shape"], query[0], c.bucket()[:60]), reg, query,
                      "lookup crashed: registry %s of size %d, query %r: %s" %
                      (reg["shape"], len(reg["zones"]), query, c.stderr[-900:]))
            self.mk(reg)
            return None

    def mk(self, reg, report=False):
        """-> False when constructing the manager itself crashes or hangs (a violation when `report`: every registry the
        generators build, the empty one included, is one the API accepts)."""
        try:
            self.drv.cmd("RESET")
            r = self.drv.cmd("MGR %s %d %d %s" % (reg["db"], reg["cache"], len(reg["zones"]),
                                                " ".join(str(z) for z in reg["zones"])), timeout=TIMEOUT)
            reg["mgr"] = int(r)
            return True
        except (rpcdrv.Hang, rpcdrv.Crash) as c:
            if report:
                self.nfail += 1
                what = "did not terminate" if isinstance(c, rpcdrv.Hang) else "crashed: %s" % c.stderr[-900:]
                self.fail("create:%s:%s" % (reg["shape"], "hang" if isinstance(c, rpcdrv.Hang) else c.bucket()[:60]), reg, ("create",),
                          "constructing the zone manager over registry %s of size %d %s" % (reg["shape"], len(reg["zones"]), what))
            return False

    def check_registry(self, reg, only_query=None):
        """reg: dict(db, cache, zones=[zone idx...], shape)"""
        ctx = self.ctx
        db = reg["db"]
        names = [NAMES[db][z] for z in reg["zones"]]
        ids = [IDS[db][z] for z in reg["zones"]]
        n = len(names)
        if not self.mk(reg, report=True):
            return
        m = reg["mgr"]
        r = self.ask(reg, "IDX %d size" % m, ("size",))
        ctx.evaluations += 1
        if r is not None and int(r) != n:
            self.fail("size", reg, ("size",), "registrySize()=%s want %d" % (r, n))
        queries = []
        srt = sorted(names)
        qn = set(names)
        qn.update(["", "A", "\x01", "zzz", "~"])
        for g in range(n):
            qn.add(srt[g] + "!")          # strictly between srt[g] and its successor
            qn.add(srt[g][:-1])           # proper prefix
            qn.add(srt[g] + "x")          # proper extension
            qn.add(srt[g].lower())
            # present names with one character changed near the front (inside whatever prefix the entries may share)
            qn.add("X" + srt[g][1:])
            qn.add(srt[g][0].lower() + srt[g][1:])
            if len(srt[g]) > 4:
                qn.add(srt[g][:3] + "#" + srt[g][4:])
            qn.add(srt[g][:2])
            # an absent name with the same djb2 hash as a present one: h(p + c1 c2) == h(p + (c1+1)(c2-33))
            nm = srt[g]
            if len(nm) >= 2 and ord(nm[-1]) - 33 >= 33:
                col = nm[:-2] + chr(ord(nm[-2]) + 1) + chr(ord(nm[-1]) - 33)
                if djb2(col) == djb2(nm):
                    qn.add(col)
        qn.update(reg.get("extra_names", []))
        for nm in sorted(qn):
            queries.append(("name", nm))
        qi = set(ids) | {0, 0xFFFFFFFF, 5381}
        for i in ids:
            qi.update(((i + 1) & 0xFFFFFFFF, (i - 1) & 0xFFFFFFFF))
        for i in sorted(qi):
            queries.append(("id", i))
        for i in list(range(n + 2)) + [0xFFFF, 255, 256]:
            queries.append(("index", i))
        if only_query:
            queries = [tuple(only_query)] if only_query[0] != "create" else []
        sorted_reg = all(names[i] <= names[i + 1] for i in range(n - 1)) and n > 0
        for q in queries:
            ctx.evaluations += 1
            if q[0] == "name":
                want = names.index(q[1]) if q[1] in names else 0xFFFF
                # duplicates are never generated, so index() is the unique match
                r = self.ask(reg, "IDX %d name %s" % (m, rpcdrv.hexname(q[1])), q)
                if r is None:
                    continue
                if int(r) != want:
                    self.fail("name:%s:%s" % (reg["shape"], "present" if want != 0xFFFF else "absent"), reg, q,
                              "findIndexForName(%r) = %s, want %d (registry %s size %d)" % (q[1], r, want, reg["shape"], n))
                if want == 0xFFFF and sorted_reg and n >= 6:
                    import bisect
                    self.nt.add((n, reg["shape"], bisect.bisect_left(srt, q[1])))
                r2 = self.ask(reg, "MTZ %d name %s" % (m, rpcdrv.hexname(q[1])), q)
                self.check_tz(reg, q, r2, want, names, ids)
            elif q[0] == "id":
                want = ids.index(q[1]) if q[1] in ids else 0xFFFF
                r = self.ask(reg, "IDX %d id %d" % (m, q[1]), q)
                if r is None:
                    continue
                if int(r) != want:
                    self.fail("id:%s" % reg["shape"], reg, q, "findIndexForId(%#x) = %s, want %d" % (q[1], r, want))
                r2 = self.ask(reg, "MTZ %d id %d" % (m, q[1]), q)
                self.check_tz(reg, q, r2, want, names, ids)
            else:
                want = q[1] if q[1] < n else 0xFFFF
                r2 = self.ask(reg, "MTZ %d index %d" % (m, q[1]), q)
                self.check_tz(reg, q, r2, want, names, ids)

    def check_tz(self, reg, q, r2, want, names, ids):
        if r2 is None:
            return
        tzid, typ = r2.split()
        if want == 0xFFFF:
            if typ != "0":
                self.fail("mgr-notfound:%s" % q[0], reg, q, "manager did not return the error zone for %r (type %s)" % (q, typ))
            return
        want_type = "4" if reg["db"] == "b" else "5"   # kTypeBasicManaged / kTypeExtendedManaged
        zid = self.ask(reg, "Q %s id" % tzid, q)
        pr = self.ask(reg, "Q %s print" % tzid, q)
        if zid is None or pr is None:
            return
        if typ != want_type or int(zid) != ids[want] or pr != '"%s"' % names[want]:
            self.fail("mgr-found:%s" % q[0], reg, q,
                      "manager returned type %s id %s name %s for %r; want type %s id %d name %s" %
                      (typ, zid, pr, q, want_type, ids[want], names[want]))


# --------------------------------------------------------------------------------------------------------------------
# histories over several managers living in one process (the oracle is stateless, so any dependence of a lookup on earlier
# lookups, on other registries of the same kind, or on zones created through createForZoneInfo() shows as a mismatch)
# --------------------------------------------------------------------------------------------------------------------

def run_manager_history(exe, h, upto=None):
    """h = {db, regs: [{cache, zones}], ops: [(k, kind, arg)]}. Fresh process. -> None or (op index, key, message)."""
    db = h["db"]
    drv = rpcdrv.Driver(exe)
    want_type = "4" if db == "b" else "5"
    try:
        mids = []
        for r in h["regs"]:
            mids.append(int(drv.cmd("MGR %s %d %d %s" % (db, r["cache"], len(r["zones"]), " ".join(str(z) for z in r["zones"])), timeout=TIMEOUT)))
        ops = h["ops"] if upto is None else h["ops"][:upto]
        for i, (k, kind, arg) in enumerate(ops):
            names = [NAMES[db][z] for z in h["regs"][k]["zones"]]
            ids = [IDS[db][z] for z in h["regs"][k]["zones"]]
            m = mids[k]
            try:
                if kind == "info":
                    r2 = drv.cmd("MTZ %d info %d" % (m, arg), timeout=TIMEOUT)
                    tzid, typ = r2.split()
                    zid = drv.cmd("Q %s id" % tzid, timeout=TIMEOUT)
                    pr = drv.cmd("Q %s print" % tzid, timeout=TIMEOUT)
                    if typ != want_type or int(zid) != IDS[db][arg] or pr != '"%s"' % NAMES[db][arg]:
                        return i, "history:info", "createForZoneInfo(%s) gave type %s id %s name %s" % (NAMES[db][arg], typ, zid, pr)
                    continue
                if kind == "name":
                    want = names.index(arg) if arg in names else 0xFFFF
                    r = drv.cmd("IDX %d name %s" % (m, rpcdrv.hexname(arg)), timeout=TIMEOUT)
                    r2 = drv.cmd("MTZ %d name %s" % (m, rpcdrv.hexname(arg)), timeout=TIMEOUT)
                elif kind == "id":
                    want = ids.index(arg) if arg in ids else 0xFFFF
                    r = drv.cmd("IDX %d id %d" % (m, arg), timeout=TIMEOUT)
                    r2 = drv.cmd("MTZ %d id %d" % (m, arg), timeout=TIMEOUT)
                else:
                    want = arg if arg < len(names) else 0xFFFF
                    r = str(want)
                    r2 = drv.cmd("MTZ %d index %d" % (m, arg), timeout=TIMEOUT)
                pa = "present" if want != 0xFFFF else "absent"
                if int(r) != want:
                    return i, "history:%s:%s:index" % (kind, pa), "indexFor %s %r on registry %d = %s, want %d" % (kind, arg, k, r, want)
                tzid, typ = r2.split()
                if want == 0xFFFF:
                    if typ != "0":
                        return i, "history:%s:absent:tz" % kind, "createFor %s %r on registry %d (which does not contain it) gave a zone of type %s, want the error zone" % (kind, arg, k, typ)
                else:
                    zid = drv.cmd("Q %s id" % tzid, timeout=TIMEOUT)
                    pr = drv.cmd("Q %s print" % tzid, timeout=TIMEOUT)
                    if typ != want_type or int(zid) != ids[want] or pr != '"%s"' % names[want]:
                        return i, "history:%s:present:tz" % kind, "createFor %s %r on registry %d gave type %s id %s name %s, want %s" % (kind, arg, k, typ, zid, pr, names[want])
            except rpcdrv.Hang:
                return i, "history:hang:%s" % kind, "lookup (%s %r on registry %d) did not terminate within %.0f s" % (kind, arg, k, TIMEOUT)
            except rpcdrv.Crash as c:
                return i, "history:crash:%s:%s" % (kind, c.bucket()[:50]), "lookup (%s %r on registry %d) crashed: %s" % (kind, arg, k, c.stderr[-600:])
        return None
    finally:
        drv.close()


def shrink_manager_history(exe, h, key):
    f = run_manager_history(exe, h)
    if f is None:
        return h
    cur = dict(h, ops=list(h["ops"][:f[0] + 1]))
    i = len(cur["ops"]) - 2
    while i >= 0:
        cand = dict(cur, ops=cur["ops"][:i] + cur["ops"][i + 1:])
        g = run_manager_history(exe, cand)
        if g is not None and g[1] == key:
            cur = cand
        i -= 1
    return cur


def manager_histories(ctx, exe, thorough):
    fails = {}
    stats = {"n": 0, "ops": 0, "sorted_then_unsorted": 0, "info_outside_then_lookup": 0, "repeats": 0}

    def registry(draw, db, shape):
        total = len(NAMES[db])
        n = {"single": 1, "empty": 0}.get(shape)
        if n is None:
            n = draw(st.integers(6, 14))
        z = draw(st.lists(st.integers(0, total - 1), min_size=n, max_size=n, unique=True))
        if shape == "sorted":
            z = sorted(z)
        elif shape == "shuffled" and z == sorted(z):
            z = z[::-1]
        return z

    @hypothesis.seed(ctx.seed)
    @settings(max_examples=1500 if thorough else 160, deadline=None, database=None, phases=[Phase.generate], suppress_health_check=list(HealthCheck))
    @given(st.data())
    def hist(data):
        draw = data.draw
        db = draw(st.sampled_from(["b", "x"]))
        total = len(NAMES[db])
        shapes = draw(st.lists(st.sampled_from(["sorted", "shuffled", "sorted", "shuffled", "single", "empty"]), min_size=2, max_size=3))
        regs = [dict(cache=draw(st.integers(1, 4)), zones=registry(draw, db, sh), shape=sh) for sh in shapes]
        ops = []
        nops = draw(st.integers(6, 30))
        outside_created = set()
        for _ in range(nops):
            if ops and draw(st.integers(0, 5)) == 0:
                ops.append(ops[-1])          # the same lookup again, immediately
                stats["repeats"] += 1
                continue
            k = draw(st.integers(0, len(regs) - 1))
            zs = regs[k]["zones"]
            kind = draw(st.sampled_from(["name", "name", "id", "id", "index", "info"]))
            inside = draw(st.booleans()) and len(zs) > 0
            # absent names / ids are real zones of the database that this registry does not list, preferably ones already
            # handed to createForZoneInfo() or present in another registry of the same process
            others = sorted(set(z for r in regs for z in r["zones"]) | outside_created)
            if inside:
                z = zs[draw(st.integers(0, len(zs) - 1))]
            elif others and draw(st.booleans()):
                z = others[draw(st.integers(0, len(others) - 1))]
            else:
                z = draw(st.integers(0, total - 1))
            if kind == "info":
                ops.append((k, "info", z))
                if z not in zs:
                    outside_created.add(z)
            elif kind == "name":
                ops.append((k, "name", NAMES[db][z]))
            elif kind == "id":
                ops.append((k, "id", IDS[db][z]))
            else:
                ops.append((k, "index", draw(st.integers(0, len(zs) + 1))))
        h = {"db": db, "regs": [dict(cache=r["cache"], zones=r["zones"]) for r in regs], "ops": ops}
        stats["n"] += 1
        stats["ops"] += len(ops)
        first = {}
        for i, (k, kind, arg) in enumerate(ops):
            if kind in ("name",):
                first.setdefault(k, i)
        order = sorted(first, key=first.get)
        if len(order) >= 2 and shapes[order[0]] in ("sorted", "single") and any(shapes[k] == "shuffled" for k in order[1:]):
            stats["sorted_then_unsorted"] += 1
        if outside_created:
            stats["info_outside_then_lookup"] += 1
        try:
            f = run_manager_history(exe, h)
        except Exception as e_:      # a reply that cannot be parsed etc.: a finding to report, never an exception inside Hypothesis
            f = (len(ops) - 1, "history:unparsable-reply", "%s: %s" % (type(e_).__name__, str(e_)[:200]))
        ctx.evaluations += len(ops)
        if f is not None and f[1] not in fails:
            fails[f[1]] = (h, f)

    hist()
    for key, (h, f) in sorted(fails.items()):
        try:
            small = shrink_manager_history(exe, h, key)
            g = run_manager_history(exe, small) or f
        except Exception:
            small, g = h, f
        ctx.violation(key, {"history": small}, "history of %d lookups over %d registries in one process (minimised from %d): %s\n  registries: %s\n  ops: %s" %
                      (len(small["ops"]), len(small["regs"]), len(h["ops"]), g[2],
                       [[NAMES[small["db"]][z] for z in r["zones"]] for r in small["regs"]], small["ops"]))
    for k, v in stats.items():
        ctx.count("manager_histories_" + k, v)
    return stats


def run(ctx):
    ctx.assumptions = [
        "oracle = linear scan with exact string / integer equality over the registry's names and ids (Python)",
        "ASan+UBSan build: reads outside the registry array are reported by the sanitizer; a lookup that does not "
        "answer within 1 s is a hang; exploration stops early after 40 hangs/crashes",
        "registries never contain duplicate entries",
    ]
    exe = vt.build("C10", "rpc_san", ["rpc.cpp"], sanitize=True)
    sw = sweeplib.build_sweep("C10", "sweep_list")
    for db in ("b", "x"):
        NAMES[db] = sweeplib.list_zones(sw, db)
        IDS[db] = [djb2(n) for n in NAMES[db]]
    drv = rpcdrv.Driver(exe)
    R = Runner(ctx, drv)
    if ctx.replay:
        r = json.load(open(ctx.replay))["replay"]
        if "history" in r:
            drv.close()
            f = run_manager_history(exe, r["history"])
            ctx.evaluations += 1
            if f is not None:
                ctx.violation(f[1], {"history": r["history"]}, f[2])
            return
        reg = dict(db=r["db"], cache=r["size"], zones=r["zones"], shape="replay")
        R.check_registry(reg, only_query=r["query"])
        drv.close()
        return
    thorough = ctx.tier == "thorough"
    rnd = random.Random(ctx.seed)
    nreg = 0
    samples = []
    for db in ("b", "x"):
        total = len(NAMES[db])
        for n in range(0, 41):
            regs = [("prefix", list(range(n)))]
            regs.append(("sorted-subset", sorted(rnd.sample(range(total), n))))
            regs.append(("sorted-tail", list(range(total - n, total))))
            for k in range(20 if thorough else 3):
                z = rnd.sample(range(total), n)
                regs.append(("shuffled", z))
            if n >= 2:
                # a sorted registry of one region: all names share a prefix ('America/', 'Europe/', 'Etc/GMT', ...)
                groups = {}
                for i_, nm_ in enumerate(NAMES[db]):
                    groups.setdefault(nm_.split("/")[0], []).append(i_)
                big = sorted(g_ for g_ in groups.values() if len(g_) >= n)
                if big:
                    g_ = big[rnd.randrange(len(big))]
                    regs.append(("one-region", sorted(rnd.sample(g_, n))))
                # listed in ascending zone-id order (unsorted by name)
                regs.append(("sorted-by-id", sorted(rnd.sample(range(total), n), key=lambda i_: IDS[db][i_])))
                z = sorted(rnd.sample(range(total), n))
                z[-1], z[-2] = z[-2], z[-1]
                regs.append(("last-pair-swapped", z))
                z = sorted(rnd.sample(range(total), n))
                z[0], z[1] = z[1], z[0]
                regs.append(("first-pair-swapped", z))
            for shape, z in regs:
                reg = dict(db=db, cache=rnd.randint(1, 4), zones=z, shape=shape)
                R.check_registry(reg)
                nreg += 1
                ctx.count("registries_" + shape)
                if len(samples) < 3 and n in (7, 12) and shape != "prefix":
                    samples.append({"db": db, "shape": shape, "zones": [NAMES[db][i] for i in z]})
        # the full shipped registry
        reg = dict(db=db, cache=2, zones=list(range(total)), shape="full")
        R.check_registry(reg)
        nreg += 1
        # ... and all its zones listed in ascending zone-id order
        reg = dict(db=db, cache=2, zones=sorted(range(total), key=lambda i_: IDS[db][i_]), shape="full-by-id")
        R.check_registry(reg)
        nreg += 1
    # Hypothesis-generated arbitrary query strings (incl. bytes >= 0x80) against mid-size sorted registries
    regs = {}
    for db in ("b", "x"):
        z = sorted(rnd.sample(range(len(NAMES[db])), 17))
        regs[db] = dict(db=db, cache=2, zones=z, shape="sorted-subset")
    fuzz_n = [0]

    @hypothesis.seed(ctx.seed)
    @settings(max_examples=2000 if thorough else 300, deadline=None, database=None, phases=[Phase.generate],
              suppress_health_check=list(HealthCheck))
    @given(db=st.sampled_from(["b", "x"]),
           names=st.lists(st.one_of(
               st.binary(min_size=1, max_size=24).map(lambda b: b.replace(b"\x00", b"\x01").decode("latin-1")),
               st.builds(lambda i, cut, suf: (NAMES["x"][i % len(NAMES["x"])][:cut] + suf),
                         st.integers(0, 1000), st.integers(0, 30), st.text(alphabet="/_-+AZaz09~\x7f\x80\xff", max_size=3))),
               min_size=1, max_size=8))
    def fuzz(db, names):
        reg = dict(regs[db])
        present = set(NAMES[db][z] for z in reg["zones"])
        reg["extra_names"] = names
        fuzz_n[0] += len(names)
        # only the generated names (present ones are filtered by the oracle anyway)
        for nm in names:
            R.check_registry(reg, only_query=("name", nm))

    fuzz()
    ctx.count("hypothesis_query_strings", fuzz_n[0])
    hs = manager_histories(ctx, exe, thorough)
    if hs["sorted_then_unsorted"] < 5 or hs["info_outside_then_lookup"] < 5:
        raise vt.HarnessError("manager-history generator does not reach the interesting classes: %r" % hs)
    ctx.nontrivial = len(R.nt) + hs["sorted_then_unsorted"] + hs["info_outside_then_lookup"]
    ctx.extra["registries"] = nreg
    for s in samples:
        ctx.sample(s)
    ctx.sample({"absent_name_classes": ["<prev>!", "<name minus last char>", "<name>x", "lower-case", "", "A", "\\x01", "zzz"]})
    ctx.exhaustive = False
    ctx.rule = ("registries of size 0..40 from the shipped zones of each database: sorted prefix, sorted tail, sorted random "
                "subset, shuffled subsets, sorted with first / last pair swapped, and the two full registries; queries: every "
                "present name, an absent name inside every gap (prev+'!'), below the first, above the last, empty, proper "
                "prefixes/extensions, an absent name with the same djb2 hash as each present name, every present id, 0, 0xFFFFFFFF, id+-1, indices 0..n+1, 255, 256, 0xFFFF, plus "
                "Hypothesis-drawn byte strings; each through indexFor*/createFor*; plus Hypothesis-drawn histories of 6..30 lookups "
                "(name/id/index/createForZoneInfo, present and absent, absent ones preferring zones known to another registry or "
                "created through createForZoneInfo) over 2..3 registries (sorted/shuffled/single/empty) living in one fresh process, "
                "every answer against the stateless linear-scan model. Non-trivial = distinct (size, shape, gap index) of absent "
                "names on sorted registries of size >= 6 (the binary-search path) + histories that query a sorted registry before "
                "an unsorted one + histories that look up a zone created outside the registry")
    drv.close()


if __name__ == "__main__":
    vt.main("C10", run)
