"""Per-zone comparison of a compiled AceTime database against the zic oracle (C01, C02, C03, C20)."""
import datetime as dtm
import os
import random

import sweeplib
import tzoracle
import vt

EPOCH_DT = dtm.datetime(2000, 1, 1)


def month_starts(t0, t1):
    out = []
    d = EPOCH_DT + dtm.timedelta(seconds=t0)
    y, m = d.year, d.month
    while True:
        t = tzoracle.t_of(y, m)
        if t >= t1:
            break
        if t >= t0:
            out.append(t)
        m += 1
        if m == 13:
            y, m = y + 1, 1
    return out


def check_zone(a):
    """a: dict(exe, db, zi, zone, odir, t0, t1, stride, radius, nprobe, seed, fields)
    returns dict with diffs (list of {kind,...}), counts, samples. Never raises for library
    misbehaviour; raises HarnessError text in 'harness' for oracle trouble."""
    exe, db, zi, zone = a["exe"], a["db"], a["zi"], a["zone"]
    t0, t1 = a["t0"], a["t1"]
    res = {"zone": zone, "db": db, "diffs": [], "evaluations": 0, "transitions": 0, "harness": None,
           "samples": [], "probes": 0, "window_points": 0}
    try:
        ora = tzoracle.ZoneOracle(os.path.join(a["odir"], a.get("ozone", zone)), t0, t1, zone)
    except vt.HarnessError as e:
        res["harness"] = str(e)
        return res
    except FileNotFoundError:
        res["harness"] = "zone %s missing from the zic output" % zone
        return res
    osegs = ora.segs
    res["transitions"] = len(osegs) - 1
    res["oracle_segs"] = osegs if a.get("keep_segs") else None
    # 1. sweep
    rc, out, err = vt.run_exe(exe, ["sweep", db, zi, zi + 1, t0, t1, a["stride"]], timeout=6 * 3600)
    parsed = sweeplib.parse_sweep(out or "")
    if rc != 0 or zone not in parsed:
        res["diffs"].append({"kind": "crash", "where": "sweep", "rc": rc, "stderr": (err or "")[-1200:]})
        return res
    info = parsed[zone]
    res["evaluations"] += info.get("n", 0)
    res["highwater"], res["bufsize"], res["dropped"] = info.get("highwater"), info.get("bufsize"), info.get("dropped")
    lsegs = sweeplib.lib_to_oracle_form(info["segs"])
    res["lib_segs"] = info["segs"] if a.get("keep_segs") else None
    d = sweeplib.first_difference(lsegs, osegs)
    if d:
        d["kind"] = "function"
        d["when"] = sweeplib.iso(d["t"])
        res["diffs"].append(d)
    # 2. per-second windows round every oracle transition and every library change
    pts = sorted(set([s[0] for s in osegs[1:]] + [s[0] for s in lsegs[1:]]))
    radius = a["radius"]
    extra_w = [tuple(w) for w in a.get("extra_windows", [])]
    if (pts and radius > 0) or extra_w:
        wins = []
        cand = sorted([(max(t0, p - radius), min(t1 - 1, p + radius)) for p in pts if radius > 0] +
                      [(max(t0, lo), min(t1 - 1, hi)) for lo, hi in extra_w])
        for lo, hi in cand:
            if wins and lo <= wins[-1][1] + 1:
                wins[-1][1] = hi
            else:
                wins.append([lo, hi])
        # year boundaries +-1 s
        inp = "".join("V %d %d %d\n" % (zi, lo, hi) for lo, hi in wins)
        rc, out, err = vt.run_exe(exe, ["windows", db], stdin=inp, timeout=3600)
        if rc != 0:
            res["diffs"].append({"kind": "crash", "where": "windows", "rc": rc, "stderr": (err or "")[-1200:]})
        else:
            cur = None
            wsegs = {}
            for line in out.split("\n"):
                f = line.split(None, 4)
                if not f:
                    continue
                try:
                    if f[0] == "V":
                        cur = (int(f[2]), int(f[3]))
                        wsegs[cur] = []
                    elif f[0] == "C":
                        ab = f[4] if len(f) > 4 else ""
                        wsegs[cur].append((int(f[1]), int(f[2]), int(f[3]), ab if ab != '""' else ""))
                    else:
                        raise ValueError(line)
                except (ValueError, IndexError, KeyError):
                    # only a broken library prints an abbreviation that breaks the line format (control bytes, newlines)
                    res["diffs"].append({"kind": "window", "t": None, "when": "?", "library_line": line[:200],
                                         "note": "the driver's output line cannot be parsed (abbreviation with control characters?)"})
                    break
            for (lo, hi), segs in wsegs.items():
                res["window_points"] += hi - lo + 1
                got = sweeplib.lib_to_oracle_form(segs)
                want = [(lo,) + ora.at(lo)] + [s for s in osegs if lo < s[0] <= hi]
                dd = sweeplib.first_difference(got, want)
                if dd:
                    dd["kind"] = "window"
                    dd["window"] = [lo, hi]
                    dd["when"] = sweeplib.iso(dd["t"])
                    res["diffs"].append(dd)
                    break
            res["evaluations"] += res["window_points"]
    # 3. field probes
    if a.get("fields", True):
        rnd = random.Random("%s/%s/%d" % (zone, db, a["seed"]))
        probe = set()
        for p in pts:
            probe.update((p - 1, p, p + 1))
        y0 = (EPOCH_DT + dtm.timedelta(seconds=t0)).year
        y1 = (EPOCH_DT + dtm.timedelta(seconds=t1 - 1)).year
        for y in range(y0, y1 + 1):
            for t in (tzoracle.t_of(y) - 1, tzoracle.t_of(y), tzoracle.t_of(y) + 1):
                probe.add(t)
            # Feb 28/29, and every month end 23:59:59 / 00:00:00 UTC
            for m in range(1, 13):
                t = tzoracle.t_of(y, m)
                probe.update((t - 1, t))
            probe.update((tzoracle.t_of(y, 2, 28), tzoracle.t_of(y, 3, 1) - 86400))
        for _ in range(a["nprobe"]):
            probe.add(rnd.randrange(t0, t1))
        probe = sorted(t for t in probe if t0 <= t < t1)
        inp = "Z %s\n" % zone + "".join("P %d\n" % t for t in probe)
        rc, out, err = vt.run_exe(exe, ["probe", db], stdin=inp, timeout=3600)
        if rc != 0:
            res["diffs"].append({"kind": "crash", "where": "probe", "rc": rc, "stderr": (err or "")[-1200:]})
        else:
            for line in out.splitlines():
                if not line.startswith("P "):
                    continue
                try:
                    left, right = line[2:].rsplit("|", 1)
                    lf = left.split(None, 3)
                    t = int(lf[0])
                    got_state = (int(lf[1]), int(lf[2]), lf[3].rstrip(" ") if lf[3].rstrip(" ") != '""' else "")
                    rf = [int(x) for x in right.split()]
                except (ValueError, IndexError):
                    # only a broken library prints an abbreviation that cannot be parsed back (control bytes, blanks, '|')
                    res["diffs"].append({"kind": "fields", "t": None, "when": "?", "library_line": line[:200],
                                         "oracle": None, "want_fields": "a line 'P t offset delta abbrev | fields'"})
                    break
                utoff, isdst, abbr = ora.at(t)
                want = EPOCH_DT + dtm.timedelta(seconds=t + utoff)
                res["probes"] += 1
                ok = (got_state[0] * 60 == utoff and (got_state[1] != 0) == bool(isdst) and got_state[2] == abbr
                      and tuple(rf[0:6]) == (want.year, want.month, want.day, want.hour, want.minute, want.second)
                      and rf[6] * 60 == utoff and rf[7] == 0 and rf[8] == t)
                if not ok:
                    res["diffs"].append({"kind": "fields", "t": t, "when": sweeplib.iso(t), "library_line": line,
                                         "oracle": [utoff, isdst, abbr], "want_fields": want.isoformat()})
                    break
                if len(res["samples"]) < 2 and t in pts:
                    res["samples"].append({"zone": zone, "t": t, "utc": sweeplib.iso(t), "library": line,
                                           "oracle": [utoff, isdst, abbr]})
            res["evaluations"] += res["probes"]
    return res
