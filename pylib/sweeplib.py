"""Shared helpers for the zone-sweep checks (C01, C02, C03, C05, C07, C20)."""
import datetime as dtm
import os
import shutil
import subprocess
import tempfile

import tzoracle
import vt

T0 = tzoracle.t_of(2000)
T1 = tzoracle.t_of(2050)


def build_sweep(check_id, name="sweep", extra=(), **kw):
    return vt.build(check_id, name, ["sweep.cpp"], extra=extra, **kw)


def list_zones(exe, db):
    rc, out, err = vt.run_exe(exe, ["list", db])
    if rc != 0:
        raise vt.HarnessError("sweep list failed: " + err[-500:])
    return [l.split(None, 1)[1] for l in out.splitlines()]


def parse_sweep(out):
    """-> {zone: {"segs": [(t, off_min, delta_min, abbr)], "n":..., "highwater":..., "dropped":..., "bufsize":...}}"""
    res = {}
    cur = None
    for line in out.splitlines():
        if line.startswith("Z "):
            cur = line[2:]
            res[cur] = {"segs": []}
        elif line.startswith("C ") and cur is not None:
            # an abbreviation printed by a broken library may contain anything (blanks, '='): keep the line, never raise
            f = line.split(None, 4)
            try:
                ab = (f[4] if len(f) > 4 else "")
                res[cur]["segs"].append((int(f[1]), int(f[2]), int(f[3]), ab if ab != '""' else ""))
            except (ValueError, IndexError):
                res[cur]["malformed"] = res[cur].get("malformed", 0) + 1
        elif line.startswith("E ") and cur is not None:
            f = line.split()
            for kv in f[2:]:
                k, _, v = kv.partition("=")
                try:
                    res[cur][k] = int(v)
                except ValueError:
                    res[cur]["malformed"] = res[cur].get("malformed", 0) + 1
    return res


def _sweep_job(job):
    exe, db, first, last, t0, t1, stride = job
    rc, out, err = vt.run_exe(exe, ["sweep", db, first, last, t0, t1, stride], timeout=4 * 3600)
    return rc, out, err, (db, first, last)


def run_sweep(exe, db, nzones, t0=T0, t1=T1, stride=60, chunk=None, indices=None):
    """Run the sweep over zones (all, or the listed indices) on all cores.
    Returns ({zone: info}, [crash descriptions])."""
    idx = list(range(nzones)) if indices is None else list(indices)
    jobs = [(exe, db, i, i + 1, t0, t1, stride) for i in idx]
    results = vt.pmap(_sweep_job, jobs)
    merged = {}
    crashes = []
    for rc, out, err, (d, first, last) in results:
        part = parse_sweep(out or "")
        merged.update(part)
        if rc != 0:
            crashes.append({"db": d, "zone_index": first, "rc": rc, "stderr": (err or "")[-1500:],
                            "zone": list(part.keys())[-1] if part else None})
    return merged, crashes


class OracleSet:
    """zic-compiled source + per-zone oracle functions."""

    def __init__(self, src_text, workdir, t0=T0, t1=T1):
        self.dir = workdir
        ok, err = tzoracle.zic_compile(src_text, workdir)
        if not ok:
            raise vt.HarnessError("zic rejected the source: " + err[:2000])
        self.zic_stderr = err
        self.t0, self.t1 = t0, t1
        self._cache = {}

    def get(self, zone):
        if zone not in self._cache:
            self._cache[zone] = tzoracle.ZoneOracle(os.path.join(self.dir, zone), self.t0, self.t1, zone)
        return self._cache[zone]


def _oracle_job(args):
    d, zone, t0, t1 = args
    try:
        o = tzoracle.ZoneOracle(os.path.join(d, zone), t0, t1, zone)
        return zone, o.segs, None
    except vt.HarnessError as e:
        return zone, None, str(e)


def oracle_segs(workdir, zones, t0=T0, t1=T1):
    """{zone: [(t, utoff_s, isdst, abbr)]} computed on all cores."""
    res = vt.pmap(_oracle_job, [(workdir, z, t0, t1) for z in zones])
    out = {}
    for z, segs, e in res:
        if e:
            raise vt.HarnessError(e)
        out[z] = segs
    return out


def lib_to_oracle_form(segs):
    """library (t, off_min, delta_min, abbr) -> oracle form (t, off_s, isdst, abbr), merged."""
    out = []
    for t, off, delta, ab in segs:
        st = (off * 60 if off != 32767 else None, (1 if delta != 0 else 0) if delta != 32767 else None, ab)
        if out and out[-1][1:] == st:
            continue
        out.append((t,) + st)
    return out


def first_difference(lib, ora):
    """Compare two merged piecewise functions given as [(t, a, b, c)]. Returns None or a dict."""
    i = j = 0
    n, m = len(lib), len(ora)
    while i < n and j < m:
        if lib[i] != ora[j]:
            t = min(lib[i][0], ora[j][0])
            return {"t": t, "library": lib[i], "oracle": ora[j], "index": i,
                    "library_prev": lib[i - 1] if i else None, "oracle_prev": ora[j - 1] if j else None}
        i += 1
        j += 1
    if i < n:
        return {"t": lib[i][0], "library": lib[i], "oracle": None, "index": i, "note": "extra change in library"}
    if j < m:
        return {"t": ora[j][0], "library": None, "oracle": ora[j], "index": j, "note": "change missing in library"}
    return None


def iso(t):
    return (dtm.datetime(2000, 1, 1) + dtm.timedelta(seconds=t)).isoformat() + "Z"


def scratch_dir(check_id, name):
    d = os.path.join(vt.build_dir(check_id), name)
    os.makedirs(d, exist_ok=True)
    return d
