"""Deterministic expansion of the compact `tzdata.zi` form (as shipped in /usr/share/zoneinfo, vendored under
/verif/tzsrc) into the long form that AceTime's Extractor reads, including a `%z` expansion (this AceTime version
predates %z). The expansion is validated by the caller: zic on the original and on the expanded text must give
identical functions; zones where they differ are dropped and counted.
"""
import re

MONTHS = ["Jan", "Feb", "Mar", "Apr", "May", "Jun", "Jul", "Aug", "Sep", "Oct", "Nov", "Dec"]
MONTHS_FULL = ["January", "February", "March", "April", "May", "June", "July", "August", "September", "October", "November", "December"]
DAYS = ["Sun", "Mon", "Tue", "Wed", "Thu", "Fri", "Sat"]
DAYS_FULL = ["Sunday", "Monday", "Tuesday", "Wednesday", "Thursday", "Friday", "Saturday"]


def _prefix(word, full, short):
    w = word.lower()
    hits = [i for i, f in enumerate(full) if f.lower().startswith(w)]
    if len(hits) != 1:
        raise ValueError("ambiguous or unknown abbreviation %r" % word)
    return short[hits[0]]


def month(w):
    return _prefix(w, MONTHS_FULL, MONTHS)


def day_expr(w):
    if w.isdigit():
        return w
    if w.startswith("last"):
        return "last" + _prefix(w[4:], DAYS_FULL, DAYS)
    m = re.match(r"^([A-Za-z]+)(>=|<=)(\d+)$", w)
    if not m:
        raise ValueError("bad day expression %r" % w)
    return _prefix(m.group(1), DAYS_FULL, DAYS) + m.group(2) + m.group(3)


def hm(t):
    """'2' -> '2:00', '23s' -> '23:00s', '-1' -> '-1:00', '1:30' stays; '0' -> '0:00'"""
    suffix = ""
    if t and t[-1] in "wsugz":
        suffix = t[-1]
        t = t[:-1]
    if t == "-":
        return "0:00" + suffix
    sign = ""
    if t.startswith("-"):
        sign, t = "-", t[1:]
    if ":" not in t:
        t = t + ":00"
    return sign + t + suffix


def secs(t):
    t = hm(t)
    if t[-1] in "wsugz":
        t = t[:-1]
    sign = -1 if t.startswith("-") else 1
    f = [int(x) for x in t.lstrip("-").split(":")]
    while len(f) < 3:
        f.append(0)
    return sign * (f[0] * 3600 + f[1] * 60 + f[2])


def fmt_z(s):
    sign = "-" if s < 0 else "+"
    s = abs(s)
    h, m, sec = s // 3600, s // 60 % 60, s % 60
    if sec:
        return "%s%02d%02d%02d" % (sign, h, m, sec)
    if m:
        return "%s%02d%02d" % (sign, h, m)
    return "%s%02d" % (sign, h)


def parse_zi(text):
    rules = {}      # name -> [tokens]
    zones = []      # (name, [era token lists])
    links = []
    cur = None
    for line in text.splitlines():
        line = line.split("#", 1)[0].rstrip()
        if not line:
            continue
        f = line.split()
        if f[0] == "R":
            rules.setdefault(f[1], []).append(f[2:])
            cur = None
        elif f[0] == "Z":
            cur = (f[1], [f[2:]])
            zones.append(cur)
        elif f[0] == "L":
            links.append((f[1], f[2]))
            cur = None
        elif cur is not None:
            cur[1].append(f)
        else:
            raise ValueError("cannot parse line %r" % line)
    return rules, zones, links


def expand(text, year_lo=1990, year_hi=2060):
    """-> (long_text, stats). Zones whose %z cannot be expanded for an era overlapping [year_lo, year_hi] are left out."""
    rules, zones, links = parse_zi(text)
    out = []
    stats = {"zones": 0, "zones_left_out_multi_save": [], "pct_z_expanded": 0, "links": 0, "rules": 0}
    for name, rs in rules.items():
        for r in rs:
            frm, to, typ, inm, on, at, save, letter = r
            to = {"o": "only", "ma": "max"}.get(to, to)
            if to not in ("only", "max") and not to.isdigit():
                to = "only" if "only".startswith(to) else ("max" if "max".startswith(to) else to)
            sv = hm(save)
            if sv in ("0:00", "-0:00"):
                sv = "0"
            out.append("Rule\t%s\t%s\t%s\t%s\t%s\t%s\t%s\t%s\t%s" % (name, frm, to, typ, month(inm), day_expr(on), hm(at), sv, letter))
            stats["rules"] += 1
    kept = set()
    for name, eras in zones:
        lines = []
        ok = True
        prev_until_year = -10**9
        for i, e in enumerate(eras):
            stdoff, rule, fmt = e[0], e[1], e[2]
            until = e[3:]
            uy = int(until[0]) if until else 10**9
            std = secs(stdoff)
            if rule != "-" and rule not in rules:
                rule_out = hm(rule)          # fixed SAVE given as a bare number or h:mm
                fixed_save = secs(rule)
            else:
                rule_out = rule
                fixed_save = 0
            if "%z" in fmt:
                if rule == "-" or rule not in rules:
                    fmt = fmt.replace("%z", fmt_z(std + fixed_save))
                    stats["pct_z_expanded"] += 1
                else:
                    saves = set()
                    for r in rules[rule]:
                        frm = int(r[0])
                        to = frm if r[1] in ("o", "only") else (10**9 if r[1] in ("ma", "max") else int(r[1]))
                        if to >= prev_until_year - 1 and frm <= uy:
                            s = secs(r[6])
                            if s:
                                saves.add(s)
                    if len(saves) <= 1:
                        dst = std + (list(saves)[0] if saves else 3600)
                        fmt = fmt.replace("%z", fmt_z(std) + "/" + fmt_z(dst)) if saves else fmt.replace("%z", fmt_z(std))
                        stats["pct_z_expanded"] += 1
                    elif uy >= year_lo and prev_until_year <= year_hi:
                        ok = False
                    else:
                        fmt = fmt.replace("%z", fmt_z(std))     # era outside the compared years: any text will do
            u = []
            if until:
                u.append(until[0])
                if len(until) > 1:
                    u.append(month(until[1]))
                if len(until) > 2:
                    u.append(day_expr(until[2]))
                if len(until) > 3:
                    u.append(hm(until[3]))
            body = "%s\t%s\t%s%s" % (hm(stdoff) if stdoff.count(":") < 2 else stdoff, rule_out, fmt, ("\t" + "\t".join(u)) if u else "")
            lines.append(("Zone\t%s\t" % name if i == 0 else "\t\t\t") + body)
            prev_until_year = uy
        if ok:
            out += lines
            kept.add(name)
            stats["zones"] += 1
        else:
            stats["zones_left_out_multi_save"].append(name)
    for target, alias in links:
        if target in kept:
            out.append("Link\t%s\t%s" % (target, alias))
            stats["links"] += 1
    return "\n".join(out) + "\n", stats, sorted(kept)
