"""The zic oracle: TZ source text -> zic -> TZif -> (zdump, CPython zoneinfo) -> piecewise function.

The oracle function of a zone over [T0, T1) (AceTime epoch seconds) is a list
[(t_start, utoff_seconds, isdst, abbrev), ...] with consecutive equal states merged.
It is built from `zdump -V` (glibc's evaluation of the TZif file, including the
POSIX footer) and cross-checked against CPython's zoneinfo reading the same
file: disagreement between the two readers is a HarnessError (exit 2).
"""
import datetime as dtm
import os
import re
import subprocess
import zoneinfo
from zoneinfo import _zoneinfo as _pyzoneinfo   # pure-Python reader: the C accelerator segfaults on some generated TZif files

from vt import HarnessError, REPO

EPOCH_UNIX = 946684800
ZIC = "/usr/sbin/zic" if os.path.exists("/usr/sbin/zic") else "zic"
ZDUMP = "zdump"
UTC = dtm.timezone.utc

MONTHS = {m: i + 1 for i, m in enumerate(
    ["Jan", "Feb", "Mar", "Apr", "May", "Jun", "Jul", "Aug", "Sep", "Oct", "Nov", "Dec"])}


# --------------------------------------------------------------------------
# source reconstruction from the comments in generated tables
# --------------------------------------------------------------------------

def reconstruct_source(db, repo=None):
    """db: 'zonedb' or 'zonedbx'. Returns (source_text, zone_names, links{alias:target})."""
    repo = repo or REPO
    base = os.path.join(repo, "src/ace_time", db)
    return reconstruct_source_from(os.path.join(base, "zone_infos.cpp"),
                                   os.path.join(base, "zone_policies.cpp"),
                                   os.path.join(base, "zone_infos.h"))


def reconstruct_source_from(infos_cpp, policies_cpp, infos_h):
    out = []
    # rules
    for line in open(policies_cpp):
        s = line.strip()
        if s.startswith("// Rule"):
            f = s[2:].split()
            if f[0] == "Rule" and len(f) >= 10:
                out.append("\t".join(f))
    zones = []
    cur = None
    first = False
    prev = None
    for line in open(infos_cpp):
        s = line.rstrip("\n")
        m = re.match(r"// Zone name: (\S+)", s)
        if m:
            cur = m.group(1)
            zones.append(cur)
            first = True
            continue
        if s.strip() == "{" and cur and prev is not None and prev.strip().startswith("//"):
            f = prev.strip()[2:].split()
            if len(f) >= 3:
                if first:
                    out.append("Zone\t%s\t%s" % (cur, "\t".join(f)))
                    first = False
                else:
                    out.append("\t\t\t" + "\t".join(f))
        prev = s
    links = {}
    for line in open(infos_h):
        m = re.search(r"//\s*(\S+) -> (\S+)\s*$", line)
        if m and line.lstrip().startswith("extern"):
            links[m.group(1)] = m.group(2)
    for a, t in sorted(links.items()):
        out.append("Link\t%s\t%s" % (t, a))
    return "\n".join(out) + "\n", zones, links


# --------------------------------------------------------------------------
# zic / zdump
# --------------------------------------------------------------------------

def zic_compile(src_text, outdir, name="src"):
    """Compile. Returns (ok, stderr). Files land in outdir/<zone name>."""
    os.makedirs(outdir, exist_ok=True)
    srcfile = os.path.join(outdir, "_%s.tzsrc" % name)
    with open(srcfile, "w") as f:
        f.write(src_text)
    p = subprocess.run([ZIC, "-d", outdir, srcfile], stdout=subprocess.PIPE, stderr=subprocess.PIPE, text=True)
    return p.returncode == 0, p.stderr


_ZD = re.compile(
    r"^(\S+)\s+\w{3} (\w{3})\s+(\d+) (\d\d):(\d\d):(\d\d) (-?\d+) UT = "
    r"\w{3} (\w{3})\s+(\d+) (\d\d):(\d\d):(\d\d) (-?\d+) (\S+) isdst=(\d) gmtoff=(-?\d+)$")


def _ut(mon, d, h, mi, s, y):
    return int((dtm.datetime(int(y), MONTHS[mon], int(d), int(h), int(mi), int(s)) -
                dtm.datetime(2000, 1, 1)).total_seconds())


def zdump_transitions(path, y0, y1):
    """Return list of (t_acetime, utoff, isdst, abbr) = state from t on, for transitions in [y0,y1)."""
    p = subprocess.run([ZDUMP, "-V", "-c", "%d,%d" % (y0, y1), path], stdout=subprocess.PIPE,
                       stderr=subprocess.PIPE, text=True)
    if p.returncode != 0:
        raise HarnessError("zdump failed on %s: %s" % (path, p.stderr))
    rows = []
    for line in p.stdout.splitlines():
        m = _ZD.match(line.strip())
        if not m:
            if "= NULL" in line:
                continue
            raise HarnessError("cannot parse zdump line: %r" % line)
        g = m.groups()
        t = _ut(g[1], g[2], g[3], g[4], g[5], g[6])
        rows.append((t, int(g[15]), int(g[14]), g[13]))
    # rows come in pairs (last second before, first second after)
    trans = []
    i = 0
    while i + 1 < len(rows):
        a, b = rows[i], rows[i + 1]
        if b[0] != a[0] + 1:
            raise HarnessError("zdump rows not paired in %s: %r %r" % (path, a, b))
        trans.append((b[0], b[1], b[2], b[3], a[1], a[2], a[3]))
        i += 2
    return trans


class ZoneOracle:
    """Piecewise-constant function of one compiled zone over [T0, T1)."""

    def __init__(self, path, t0, t1, name=None):
        self.path = path
        self.name = name or os.path.basename(path)
        self.t0, self.t1 = t0, t1
        try:
            with open(path, "rb") as f:
                self.zi = _pyzoneinfo.ZoneInfo.from_file(f, key=self.name)
        except (IndexError, ValueError, KeyError) as e:
            raise HarnessError("CPython zoneinfo cannot read zic's output for %s: %r" % (self.name, e))
        y0 = (dtm.datetime(2000, 1, 1) + dtm.timedelta(seconds=t0)).year - 1
        y1 = (dtm.datetime(2000, 1, 1) + dtm.timedelta(seconds=t1)).year + 2
        raw = zdump_transitions(path, y0, y1)
        segs = [(t0,) + self.eval_zoneinfo(t0)]
        for tr in raw:
            t = tr[0]
            # cross-check both readers on both sides of every transition
            for tt, st in ((t - 1, tr[4:7]), (t, tr[1:4])):
                zi = self.eval_zoneinfo(tt)
                if zi != tuple(st):
                    raise HarnessError("oracle readers disagree for %s at %d: zdump %r zoneinfo %r" %
                                       (self.name, tt, st, zi))
            if t <= t0 or t >= t1:
                continue
            st = tuple(tr[1:4])
            if st != segs[-1][1:]:
                segs.append((t,) + st)
        # and at the far end
        self.segs = segs
        last = self.eval_zoneinfo(t1 - 1)
        if last != segs[-1][1:]:
            raise HarnessError("oracle readers disagree for %s at end: %r %r" % (self.name, last, segs[-1]))
        self._starts = [s[0] for s in segs]

    def eval_zoneinfo(self, t):
        d = dtm.datetime.fromtimestamp(t + EPOCH_UNIX, UTC).astimezone(self.zi)
        off = d.utcoffset()
        return (off.days * 86400 + off.seconds, 1 if d.dst() else 0, d.tzname())

    def at(self, t):
        import bisect
        i = bisect.bisect_right(self._starts, t) - 1
        return self.segs[i][1:]

    def transitions(self):
        """[(t, before_state, after_state)] for every real change inside (T0,T1)."""
        return [(self.segs[i][0], self.segs[i - 1][1:], self.segs[i][1:]) for i in range(1, len(self.segs))]


def t_of(y, m=1, d=1, h=0, mi=0, s=0):
    return int((dtm.datetime(y, m, d, h, mi, s) - dtm.datetime(2000, 1, 1)).total_seconds())
