"""Client for the rpc driver + abstract op histories (shared by C08, C09, C10, C16)."""
import os
import re
import subprocess

import vt


class Driver:
    def __init__(self, exe):
        self.exe = exe
        self.p = None
        self.start()

    def start(self):
        self.close()
        env = dict(os.environ)
        env.update(vt.SAN_ENV)
        self.errpath = os.path.join(os.path.dirname(self.exe), "rpc.%d.stderr" % os.getpid())
        self.errf = open(self.errpath, "w+", errors="replace")
        self.p = subprocess.Popen([self.exe], stdin=subprocess.PIPE, stdout=subprocess.PIPE, stderr=self.errf,
                                  text=True, errors="backslashreplace", bufsize=1, env=env)

    def close(self):
        if self.p:
            try:
                self.p.stdin.close()
            except Exception:
                pass
            try:
                self.p.kill()
            except Exception:
                pass
            self.p.wait()
            self.errf.close()
            self.p = None

    def cmd(self, line, timeout=None):
        """Send one command, return the reply text, or raise Crash / Hang."""
        try:
            self.p.stdin.write(line + "\n")
            self.p.stdin.flush()
            if timeout is not None:
                import select
                ready, _, _ = select.select([self.p.stdout], [], [], timeout)
                if not ready:
                    self.start()
                    raise Hang(line, timeout)
            r = self.p.stdout.readline()
        except (BrokenPipeError, OSError):
            r = ""
        if not r:
            rc = self.p.wait()
            self.errf.flush()
            self.errf.seek(0)
            err = self.errf.read()
            tail = [l for l in err.splitlines() if not l.startswith("CMD ")]
            self.start()
            raise Crash(line, rc, "\n".join(tail)[-3000:])
        # keep stderr file small
        if self.errf.tell() > 1 << 20:
            self.errf.seek(0)
            self.errf.truncate()
        return r[2:].rstrip("\n")


class Hang(Exception):
    def __init__(self, command, timeout):
        super().__init__("driver did not answer %r within %s s" % (command, timeout))
        self.command, self.timeout = command, timeout


class Crash(Exception):
    def __init__(self, command, rc, stderr):
        super().__init__("driver died on %r rc=%s" % (command, rc))
        self.command, self.rc, self.stderr = command, rc, stderr

    def bucket(self):
        """(kind, innermost repo frame) for bucketing."""
        m = re.search(r"runtime error: ([^\n]*)", self.stderr)
        kind = "ubsan" if m else "crash"
        detail = ""
        if m:
            detail = re.sub(r"0x[0-9a-f]+", "ADDR", m.group(1))
            detail = re.sub(r"-?\d{4,}", "N", detail)[:60]
        m2 = re.search(r"ERROR: AddressSanitizer: (\S+)", self.stderr)
        if m2:
            kind = "asan-" + m2.group(1)
        frame = ""
        for fm in re.finditer(r"#\d+ 0x[0-9a-f]+ in (\S+) (\S*src/ace_time/[^\s:]+)", self.stderr):
            frame = fm.group(1).split("(")[0] + "@" + os.path.basename(fm.group(2))
            break
        if not frame:
            fm = re.search(r"(\S*src/ace_time/[^\s:]+):(\d+)", self.stderr)
            if fm:
                frame = os.path.basename(fm.group(1)) + ":" + fm.group(2)
        return "%s:%s:%s" % (kind, frame, detail.replace(" ", "_"))


def hexname(s):
    if isinstance(s, str):
        s = s.encode("latin-1")
    return s.hex() or "00"[:0]


class History:
    """Executes abstract ops against a Driver. Ops (JSON lists):
      ["proc", "b"|"x"]
      ["tz", procRef, zoneIdx]
      ["man", std, dst] / ["err"] / ["utc"]
      ["mgr", db, size, [zoneIdx...]]
      ["mtz", mgrRef, how, arg]         how in name(hex)/id/index/info/data(tzRef)
      ["q", tzRef, kind, args...]
    Refs index the creation order of the *original* history; ops whose refs were removed are skipped.
    """

    def __init__(self, drv):
        self.drv = drv
        self.procs, self.mgrs, self.tzs = [], [], []
        drv.cmd("RESET")

    def step(self, op):
        """-> None, or ('mismatch', detail). Raises Crash."""
        k = op[0]
        d = self.drv
        if k == "proc":
            self.procs.append(int(d.cmd("PROC " + op[1])))
        elif k == "tz":
            p = self.procs[op[1]] if op[1] < len(self.procs) else None
            if p is None:
                self.tzs.append(None)
                return None
            r = d.cmd("TZ %d %d" % (p, op[2]))
            self.tzs.append(int(r) if r.isdigit() else None)
        elif k == "man":
            self.tzs.append(int(d.cmd("TZMAN %d %d" % (op[1], op[2]))))
        elif k == "err":
            self.tzs.append(int(d.cmd("TZERR")))
        elif k == "utc":
            self.tzs.append(int(d.cmd("TZUTC")))
        elif k == "mgr":
            r = d.cmd("MGR %s %d %d %s" % (op[1], op[2], len(op[3]), " ".join(str(i) for i in op[3])))
            self.mgrs.append(int(r) if r.isdigit() else None)
        elif k == "mtz":
            m = self.mgrs[op[1]] if op[1] < len(self.mgrs) else None
            if m is None:
                self.tzs.append(None)
                return None
            arg = op[3]
            if op[2] == "data":
                arg = self.tzs[arg] if arg < len(self.tzs) else None
                if arg is None:
                    self.tzs.append(None)
                    return None
            r = d.cmd("MTZ %d %s %s" % (m, op[2], arg))
            self.tzs.append(int(r.split()[0]) if r and r.split()[0].isdigit() else None)
        elif k == "q":
            t = self.tzs[op[1]] if op[1] < len(self.tzs) else None
            if t is None:
                return None
            args = " ".join(str(x) for x in op[2:])
            got = d.cmd("Q %d %s" % (t, args))
            want = d.cmd("F %d %s" % (t, args))
            if got != want:
                return ("mismatch", {"op": op, "long_lived": got, "fresh": want})
        else:
            raise vt.HarnessError("bad op %r" % (op,))
        return None


def run_history(drv, ops):
    """-> None or failure dict {kind, bucket, at, detail}"""
    try:
        h = History(drv)
        for i, op in enumerate(ops):
            r = h.step(op)
            if r:
                return {"kind": "mismatch", "bucket": "mismatch:%s" % op[2], "at": i, "detail": r[1]}
    except Crash as c:
        return {"kind": "crash", "bucket": c.bucket(), "at": None,
                "detail": {"command": c.command, "rc": c.rc, "stderr": c.stderr[-1500:]}}
    return None


def ddmin(drv, ops, bucket, max_rounds=6):
    """Greedy one-at-a-time removal keeping the same failure bucket. Ops that create objects are
    replaced by a no-op placeholder so that references stay valid."""
    cur = list(ops)

    def fails(cand):
        f = run_history(drv, cand)
        return f is not None and f["bucket"] == bucket

    # first: truncate after the failing op
    f = run_history(drv, cur)
    if f and f["at"] is not None:
        cur = cur[:f["at"] + 1]
    for _ in range(max_rounds):
        changed = False
        i = len(cur) - 1
        while i >= 0:
            op = cur[i]
            if op[0] == "q":
                cand = cur[:i] + cur[i + 1:]
            else:
                i -= 1
                continue
            if fails(cand):
                cur = cand
                changed = True
            i -= 1
        if not changed:
            break
    return cur
