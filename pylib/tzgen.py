"""Hypothesis grammar for small TZ sources inside AceTime's documented feature set, constructed to be zic-valid
and to stay in the region where the library is designed to agree with zic (DESIGN 1.4: 'registered layer'):
rule transitions of one policy lie in separate seasons (months 3..5 and 9..11), era boundaries lie in months
1, 2, 6, 7, 8 or 12 (never within days of a rule transition), abbreviations have 3..6 characters."""
from hypothesis import strategies as st

DOW = ["Mon", "Tue", "Wed", "Thu", "Fri", "Sat", "Sun"]
MON = ["Jan", "Feb", "Mar", "Apr", "May", "Jun", "Jul", "Aug", "Sep", "Oct", "Nov", "Dec"]


def hm(minutes):
    sign = "-" if minutes < 0 else ""
    m = abs(minutes)
    return "%s%d:%02d" % (sign, m // 60, m % 60)


@st.composite
def on_day(draw, month):
    kind = draw(st.sampled_from(["d", "last", "ge", "le"]))
    if kind == "d":
        return str(draw(st.integers(1, 28)))
    w = draw(st.sampled_from(DOW))
    if kind == "last":
        return "last" + w
    if kind == "ge":
        return "%s>=%d" % (w, draw(st.integers(1, 24)))      # never spills out of the month by more than a week
    return "%s<=%d" % (w, draw(st.integers(8, 28)))


@st.composite
def at_time(draw, basic):
    m = draw(st.one_of(st.sampled_from([0, 60, 120, 180, 1440, 1380, 90]), st.integers(0, 1440), st.just(1500)))
    if basic:
        m = (m // 15) * 15
    suf = draw(st.sampled_from(["", "", "s", "u", "w"]))
    return hm(m) + suf


@st.composite
def policy(draw, name, basic):
    """1..3 chained year ranges, each with a DST-start and a DST-end rule in different seasons."""
    south = draw(st.booleans())
    nranges = draw(st.integers(1, 3))
    cuts = sorted(draw(st.lists(st.integers(1992, 2045), min_size=nranges - 1, max_size=nranges - 1, unique=True)))
    bounds = [draw(st.integers(1970, 1989))] + cuts + [None]
    negative = draw(st.integers(0, 9)) == 0 and not basic
    multi = draw(st.integers(0, 5)) == 0 and not basic
    save = draw(st.sampled_from([60, 60, 60, 30, 120, 45 if not basic else 60]))
    rules = []
    features = set()
    for i in range(nranges):
        frm = bounds[i]
        to = "max" if bounds[i + 1] is None else str(bounds[i + 1] - 1)
        if to != "max" and int(to) == frm:
            to = "only"
        if draw(st.integers(0, 7)) == 0 and to == "max":
            # policy that stops having DST: last range ends
            to = str(min(2060, frm + draw(st.integers(0, 12))))
            if int(to) == frm:
                to = "only"
        ms = draw(st.sampled_from([9, 10, 11] if south else [3, 4, 5]))
        me = draw(st.sampled_from([3, 4, 5] if south else [9, 10, 11]))
        if negative:
            l_on, l_off, s_on, s_off = ("GMT", "IST", -60, 0) if multi or True else ("-", "-", -60, 0)
            rules.append(("Rule", name, frm, to, "-", MON[me - 1], draw(on_day(me)), draw(at_time(basic)), hm(s_on), l_on))
            rules.append(("Rule", name, frm, to, "-", MON[ms - 1], draw(on_day(ms)), draw(at_time(basic)), "0", l_off))
            features.add("negative-save")
            features.add("multi-letter")
        else:
            if multi:
                l_on, l_off = "DDT", "SST"
                features.add("multi-letter")
            else:
                l_on, l_off = draw(st.sampled_from([("D", "S"), ("S", "-"), ("D", "-"), ("S", "W")]))
            rules.append(("Rule", name, frm, to, "-", MON[ms - 1], draw(on_day(ms)), draw(at_time(basic)), hm(save), l_on))
            rules.append(("Rule", name, frm, to, "-", MON[me - 1], draw(on_day(me)), draw(at_time(basic)), "0", l_off))
    for r in rules:
        if r[7].rstrip("wsu") in ("24:00", "25:00"):
            features.add("at>=24")
        if r[7][-1] in "su":
            features.add("s/u-suffix")
        if "<=" in r[6] or ">=" in r[6]:
            features.add("dow-expr")
    return {"name": name, "rules": rules, "features": features, "multi": multi or negative, "save": save, "negative": negative}


@st.composite
def zone(draw, name, policies, basic):
    neras = draw(st.integers(1, 4 if not basic else 3))
    years = sorted(draw(st.lists(st.integers(1993, 2047), min_size=neras - 1, max_size=neras - 1, unique=True)))
    eras = []
    features = set()
    off = draw(st.integers(-15 * 60 - 59, 15 * 60 + 59))
    if basic:
        off = (off // 15) * 15
    # like every real zone, start with a standard-time (LMT) era that ends before any compared year: zic treats the time
    # before the first transition specially (it reports the first standard type there), so the compared range must lie
    # after a real transition
    eras.append((hm(off + draw(st.sampled_from([7, -13, 0]))), "-", "LMT", str(draw(st.integers(1975, 1988)))))
    for i in range(neras):
        if i:
            step = draw(st.sampled_from([-60, 60, 30, -30, 120, 15, 0, 0, 45 if not basic else 60]))
            off = max(-959, min(959, off + step))
        kind = draw(st.sampled_from(["-", "fixed", "pol", "pol", "pol"] if policies else ["-", "fixed"]))
        if kind == "-":
            rules, fmt = "-", draw(st.sampled_from(["LMT", "XST", "ABCD", "ZONE5", "SIXSIX"]))
        elif kind == "fixed":
            rules, fmt = draw(st.sampled_from(["1:00", "0:30" if not basic else "1:00", "2:00"])), draw(st.sampled_from(["XDT", "FIXD"]))
            features.add("fixed-save-era")
        else:
            p = draw(st.sampled_from(policies))
            rules = p["name"]
            if p["multi"]:
                fmt = "%s"
            else:
                fmt = draw(st.sampled_from(["X%sT", "AA%sT", "XST/XDT", "AAA/BBBB"]))
        if i < neras - 1:
            y = years[i]
            form = draw(st.sampled_from(["y", "ym", "ymd", "ymdt"])) if not basic else "y"
            if form == "y":
                until = str(y)
            else:
                mo = draw(st.sampled_from([1, 2, 6, 7, 8, 12]))
                until = "%d %s" % (y, MON[mo - 1])
                if form in ("ymd", "ymdt"):
                    until += " %d" % draw(st.integers(2, 27))
                if form == "ymdt":
                    until += " " + hm(draw(st.integers(0, 1439))) + draw(st.sampled_from(["", "s", "u"]))
                    features.add("until-time")
            features.add("era-change")
        else:
            until = ""
        eras.append((hm(off), rules, fmt, until))
    return {"name": name, "eras": eras, "features": features}


@st.composite
def source(draw, basic=False):
    npol = draw(st.integers(0, 2))
    pols = [draw(policy("P%c" % (65 + i), basic)) for i in range(npol)]
    nz = draw(st.integers(1, 3))
    zones = [draw(zone("Gen/Zone%d" % i, pols, basic)) for i in range(nz)]
    links = [("Gen/Zone0", "Gen/Alias")] if draw(st.booleans()) else []
    return {"policies": pols, "zones": zones, "links": links}


def render(src, prefix=""):
    """prefix: inserted into every zone / policy / link name so that many sources can be compiled together."""
    def zn(n):
        return n.replace("Gen/", "Gen/" + prefix) if prefix else n
    out = []
    pnames = set(p["name"] for p in src["policies"])
    for p in src["policies"]:
        for r in p["rules"]:
            r = list(r)
            r[1] = prefix + r[1]
            out.append("\t".join(str(x) for x in r))
    for z in src["zones"]:
        for i, e in enumerate(z["eras"]):
            e = list(e)
            if e[1] in pnames:
                e[1] = prefix + e[1]
            body = "\t".join(x for x in e if x != "")
            out.append(("Zone\t%s\t" % zn(z["name"]) if i == 0 else "\t\t\t") + body)
    for t, a in src["links"]:
        out.append("Link\t%s\t%s" % (zn(t), zn(a)))
    return "\n".join(out) + "\n"


def features(src):
    f = set()
    used = set()
    for z in src["zones"]:
        f |= z["features"]
        for e in z["eras"]:
            used.add(e[1])
    for p in src["policies"]:
        if p["name"] in used:
            f |= p["features"]
    return f


def systematic_sources(basic):
    """A small enumerated scope of era-boundary x rule interactions (not random): hemisphere x kind of the following era x
    STDOFF step x UNTIL form x AT suffix. Every element is one source object (one policy pair + one zone)."""
    import itertools
    out = []
    hemis = {"N": (("Mar", "lastSun", "2:00", "1:00", "D"), ("Oct", "lastSun", "3:00", "0", "S")),
             "S": (("Oct", "Sun>=1", "2:00", "1:00", "D"), ("Mar", "Sun>=15", "3:00", "0", "S"))}
    nexts = ["-", "fixed", "same", "other"]
    steps = [0, 60, -30] if not basic else [0, 60, -45]
    forms = ["2009"] if basic else ["2009", "2009 Jul 15 3:00u", "2009 Dec 31 24:00", "2009 Jan 1 0:00s", "2009 Jul 1"]
    # era boundaries 2 h and 5 h before / after (never on) a rule transition of 2009, expressed in all three time bases
    import datetime as _dt
    near_forms = {}
    if not basic:
        # (month, day, wall minutes, dst in force before) of the 2009 transitions of the two rule pairs
        trans = {"N": [(3, 29, 120, 0), (10, 25, 180, 60)], "S": [(10, 4, 120, 0), (3, 15, 180, 60)]}
        offs = {"N": 180, "S": -240}
        for h in trans:
            near_forms[h] = []
            for mo, day, wall, dst in trans[h]:
                utc = _dt.datetime(2009, mo, day) + _dt.timedelta(minutes=wall - offs[h] - dst)
                for dh in (-5, -2, 2, 5):
                    for sf in ("u", "s", ""):
                        b = utc + _dt.timedelta(hours=dh)
                        if sf == "s":
                            b += _dt.timedelta(minutes=offs[h])
                        elif sf == "":
                            b += _dt.timedelta(minutes=offs[h] + (dst if dh < 0 else 60 - dst))
                        near_forms[h].append("2009 %s %d %d:%02d%s" % (MON[b.month - 1], b.day, b.hour, b.minute, sf))
    sufs = ["", "s", "u"]
    combos = list(itertools.product(sorted(hemis), nexts, steps, forms, sufs))
    for h in sorted(near_forms):
        for nf in near_forms[h]:
            for nx in ("-", "same", "other"):
                combos.append((h, nx, 60 if nx != "same" else 0, nf, ""))
    n = 0
    for h, nx, step, form, suf in combos:
        if n % 3 != (0 if suf == "" else (1 if suf == "s" else 2)) and len(forms) > 1 and form not in ("2009",) and form in forms:
            # thin out: not every suffix with every long UNTIL form
            n += 1
            continue
        n += 1
        a, b = hemis[h]
        oh = "S" if h == "N" else "N"
        pols = [{"name": "PA", "rules": [("Rule", "PA", 1985, "max", "-", a[0], a[1], a[2] + suf, a[3], a[4]),
                                         ("Rule", "PA", 1985, "max", "-", b[0], b[1], b[2] + suf, b[3], b[4])],
                 "features": set(), "multi": False}]
        if nx == "other":
            c, d = hemis[oh]
            pols.append({"name": "PB", "rules": [("Rule", "PB", 1990, "max", "-", c[0], c[1], c[2], c[3], c[4]),
                                                 ("Rule", "PB", 1990, "max", "-", d[0], d[1], d[2], d[3], d[4])],
                         "features": set(), "multi": False})
        off = 180 if h == "N" else -240
        eras = [(hm(off + 7), "-", "LMT", "1980"), (hm(off), "PA", "A%sT", form)]
        if nx == "-":
            eras.append((hm(off + step), "-", "FIX"))
        elif nx == "fixed":
            eras.append((hm(off + step), "1:00", "FXD"))
        elif nx == "same":
            eras.append((hm(off + step), "PA", "B%sT"))
        else:
            eras.append((hm(off + step), "PB", "C%sT"))
        eras = [e + ("",) * (4 - len(e)) for e in eras]
        out.append({"policies": pols, "zones": [{"name": "Gen/Zone0", "eras": eras, "features": set()}], "links": [],
                    "label": "%s/%s/%+d/%s/%s" % (h, nx, step, form, suf or "w")})

    def src(pols, eras, label):
        eras = [e + ("",) * (4 - len(e)) for e in eras]
        out.append({"policies": [{"name": n_, "rules": r_, "features": set(), "multi": False} for n_, r_ in pols],
                    "zones": [{"name": "Gen/Zone0", "eras": eras, "features": set()}], "links": [], "label": label})

    for h in sorted(hemis):
        a, b = hemis[h]
        oh = "S" if h == "N" else "N"
        off = 180 if h == "N" else -240
        pa = [("Rule", "PA", 1985, "max", "-", a[0], a[1], a[2], a[3], a[4]), ("Rule", "PA", 1985, "max", "-", b[0], b[1], b[2], b[3], b[4])]
        # (B) the policy of the following era starts (or stops) close to the era change: its state at the end of the
        # previous year differs from the state one year earlier
        for hh in (oh, h):
            c, d = hemis[hh]
            for fy, ty in ((2008, "max"), (2009, "max"), (2008, "only"), (2007, 2008), (1990, 2008), (1990, 2007)):
                pb = [("Rule", "PB", fy, ty, "-", c[0], c[1], c[2], c[3], c[4]), ("Rule", "PB", fy, ty, "-", d[0], d[1], d[2], d[3], d[4])]
                for form in (["2009"] if basic else ["2009", "2009 Jul 1"]):
                    src([("PA", pa), ("PB", pb)], [(hm(off + 7), "-", "LMT", "1980"), (hm(off), "PA", "A%sT", form), (hm(off), "PB", "C%sT")],
                        "%s/late-%s-%s-%s/%s" % (h, hh, fy, ty, form))
        # (C) a one-off extra rule in the same month as a regular rule, in and around the first and last years of the window
        for yx in (1998, 1999, 2000, 2030, 2036):      # zic does not honour one-off rules after 2037
            if h == "N":
                extra = ("Rule", "PA", yx, "only", "-", b[0], "3", "2:00", "0:30", "H")       # before the regular Oct lastSun
            else:
                extra = ("Rule", "PA", yx, "only", "-", a[0], "20", "2:00", "0", "S")          # after the regular Oct Sun>=1
            src([("PA", pa + [extra])], [(hm(off + 7), "-", "LMT", "1980"), (hm(off), "PA", "A%sT")], "%s/extra-rule-same-month-%d" % (h, yx))
        # (E) a rule in January / December (DST that ends in January) next to an era change at the start of a year: the
        # transition that starts the era and the rule share (year, month)
        for rm, rd in (("Jan", "Sun>=15"), ("Jan", "1"), ("Dec", "Sun>=25"), ("Jan", "Sun<=7"), ("Jan", "Sun>=1"), ("Jan", "Sat<=6"), ("Dec", "Sun>=26")):
            pe = [("Rule", "PE", 1990, "max", "-", "Nov", "Sun>=1", "2:00", "1:00", "D"), ("Rule", "PE", 1990, "max", "-", rm, rd, "3:00", "0", "S")]
            for form in (["2005"] if basic else ["2005", "2005 Jan 10", "2005 Dec 20"]):
                for prev in ("-", "PA"):
                    for step in (0, 60):
                        first = (hm(off + step), "-", "FIX", form) if prev == "-" else (hm(off + step), "PA", "A%sT", form)
                        src([("PA", pa), ("PE", pe)], [(hm(off + 7), "-", "LMT", "1980"), first, (hm(off), "PE", "E%sT")],
                            "%s/jan-rule-%s-%s/%s/%s/%+d" % (h, rm, rd, form, prev, step))
        # (J) three, four and five rule transitions a year (five needs exactly the transition pool of the extended processor)
        for k in ((3, 4, 5) if not basic else (3,)):
            mons = ["Feb", "Apr", "Jun", "Aug", "Oct"][:k]
            pj = [("Rule", "PJ", 1990, "max", "-", m_, "Sun>=8", "2:00", "1:00" if i_ % 2 == 0 else "0", "D" if i_ % 2 == 0 else "S") for i_, m_ in enumerate(mons)]
            src([("PJ", pj)], [(hm(off + 7), "-", "LMT", "1980"), (hm(off), "PJ", "J%sT")], "%s/%d-transitions-a-year" % (h, k))
            if not basic:
                src([("PA", pa), ("PJ", pj)], [(hm(off + 7), "-", "LMT", "1980"), (hm(off), "PA", "A%sT", "2010 Jul 1"), (hm(off + 60), "PJ", "J%sT")],
                    "%s/%d-transitions-a-year/after-era-change" % (h, k))
        # (M) the whole SAVE range the tables can encode (-1:00 .. +2:45 in 15-minute steps), extended scope
        if not basic:
            for sv in ("2:45", "2:30", "2:15", "2:00", "1:45", "0:15", "-0:30", "-1:00"):
                pm = [("Rule", "PM", 1990, "max", "-", a[0], a[1], a[2], sv, "D"), ("Rule", "PM", 1990, "max", "-", b[0], b[1], b[2], "0", "S")]
                src([("PM", pm)], [(hm(off + 7), "-", "LMT", "1980"), (hm(off), "PM", "M%sT")], "%s/save-%s" % (h, sv))
        # (I) a rule on the last day of a month whose time, in wall-clock terms, falls on the first day of the next month,
        # next to an era that starts on that first day
        if not basic:
            for at in ("23:00u", "24:00", "25:00", "22:30s"):
                pi = [("Rule", "PI", 1990, "max", "-", "Mar", "31", at, "1:00", "D"), ("Rule", "PI", 1990, "max", "-", "Oct", "lastSun", "3:00", "0", "S")]
                for form in ("2010 Apr 1", "2010 Apr 1 3:00", "2010 Mar 31 23:00"):
                    for prev in ("-", "PA"):
                        first = (hm(off + 60), "-", "FIX", form) if prev == "-" else (hm(off), "PA", "A%sT", form)
                        src([("PA", pa), ("PI", pi)], [(hm(off + 7), "-", "LMT", "1980"), first, (hm(off), "PI", "I%sT")],
                            "%s/month-end-rule-%s/%s/%s" % (h, at, form, prev))
        # (H) a policy whose first rules start in the years around the first year of the database (1998..2001) and govern the
        # zone from long before: the time before the first rule has no prior rule (anchor rule / initial letter)
        for fy in (1998, 1999, 2000, 2001):
            for zero in ("0", "0:00"):          # the SAVE column of a standard-time rule may be spelled either way
                ph = [("Rule", "PH", fy, "max", "-", a[0], a[1], a[2], a[3], a[4]), ("Rule", "PH", fy, "max", "-", b[0], b[1], b[2], zero, b[4])]
                src([("PH", ph)], [(hm(off + 7), "-", "LMT", "1980"), (hm(off), "PH", "H%sT")], "%s/policy-starts-%d/save-%s" % (h, fy, zero))
        # (H2) ... and a second standard-time rule with another LETTER that starts later but ends earlier than the first one:
        # the time before the first rule takes the LETTER of the earliest standard-time rule
        for fy in (2003, 2005):
            ph = [("Rule", "PH", fy, "max", "-", a[0], a[1], a[2], a[3], a[4]), ("Rule", "PH", fy, "max", "-", b[0], b[1], b[2], "0", b[4]),
                  ("Rule", "PH", fy + 2, fy + 3, "-", "Sep", "1", "2:00", "0", "X")]
            for rev in (False, True):
                src([("PH", ph if not rev else [ph[2], ph[0], ph[1]])], [(hm(off + 7), "-", "LMT", "1980"), (hm(off), "PH", "H%sT")],
                    "%s/policy-starts-%d/second-standard-letter%s" % (h, fy, "-first-in-file" if rev else ""))
        # (K) era changes just before / at / after the first and the last instant of the database range
        if not basic:
            for form in ("1999 Dec 31 20:00", "1999 Dec 31 24:00", "2000 Jan 1 0:00", "2000 Jan 1 3:00", "1999 Dec 1", "2049 Dec 31 20:00", "2050 Jan 1 0:00"):
                for nx in ("-", "PA"):
                    nxt = (hm(off + 60), "-", "FIX") if nx == "-" else (hm(off + 60), "PA", "B%sT")
                    src([("PA", pa)], [(hm(off + 7), "-", "LMT", "1980"), (hm(off), "PA", "A%sT", form), nxt], "%s/%s/range-edge/%s" % (h, nx, form))
        else:
            for form in ("1999", "2000", "2001", "2049", "2050"):
                src([("PA", pa)], [(hm(off + 15), "-", "LMT", "1980"), (hm(off), "PA", "A%sT", form), (hm(off + 60), "PA", "B%sT")], "%s/range-edge/%s" % (h, form))
        # (N) a policy whose rules all ended before the era that uses it, the two latest rules in the same month of its last
        # year (either order in the file): the later one decides SAVE and LETTER of the whole era
        for yx in (1990, 1998, 1999, 2005):
            for rev in (False, True):
                pn = [("Rule", "PN", 1985, yx - 1, "-", a[0], a[1], a[2], a[3], a[4]), ("Rule", "PN", 1985, yx - 1, "-", b[0], b[1], b[2], b[3], b[4]),
                      ("Rule", "PN", yx, "only", "-", "Sep", "2", "2:00", "1:00", "D"), ("Rule", "PN", yx, "only", "-", "Sep", "23", "2:00", "0", "S")]
                if rev:
                    pn = pn[:2] + [pn[3], pn[2]]
                if yx == 2005:
                    src([("PA", pa), ("PN", pn)], [(hm(off + 7), "-", "LMT", "1980"), (hm(off), "PA", "A%sT", "2009"), (hm(off), "PN", "N%sT")],
                        "%s/dead-policy-same-month-%d%s/after-era-change" % (h, yx, "-rev" if rev else ""))
                else:
                    src([("PN", pn)], [(hm(off + 7), "-", "LMT", "1980"), (hm(off), "PN", "N%sT")],
                        "%s/dead-policy-same-month-%d%s" % (h, yx, "-rev" if rev else ""))
        # (O) abbreviations of exactly six characters (the documented maximum) from each kind of FORMAT
        src([("PA", pa)], [(hm(off + 7), "-", "LMT", "1980"), (hm(off), "PA", "ABCD%sT", "2009"), (hm(off), "1:00", "ABCDEF", "2012"),
                           (hm(off), "PA", "AB/ABCDEF")], "%s/six-character-abbreviations" % h)
        # (P) a FORMAT with a STD/DST pair in eras whose RULES column is '-' or a fixed amount (the half is chosen by the era's SAVE)
        src([("PA", pa)], [(hm(off + 7), "-", "LMT", "1980"), (hm(off), "PA", "A%sT", "2005"), (hm(off), "1:00", "EET/EEST", "2010"),
                           (hm(off + 60), "-", "CET/CEST", "2015"), (hm(off), "PA", "AST/ADT", "2020"), (hm(off), "0:30", "XST/XHT")],
            "%s/slash-format-with-fixed-rules" % h)
        if not basic:
            po = [("Rule", "PO", 1985, "max", "-", a[0], a[1], a[2], a[3], "DE"), ("Rule", "PO", 1985, "max", "-", b[0], b[1], b[2], b[3], "S")]
            src([("PO", po)], [(hm(off + 7), "-", "LMT", "1980"), (hm(off), "PO", "ABC%sT", "2009 Jul 1"), (hm(off + 60), "PO", "%sWXYZ")],
                "%s/six-character-abbreviations/long-letter" % h)
        # (D) UNTIL given as a weekday expression, including ones that resolve into the neighbouring month
        if not basic:
            for form in ("2009 Sep Sun>=28 2:00", "2009 Oct Sat<=2 2:00", "2009 Mar lastSun 1:00u", "2009 Jun Sun>=8 0:00", "2009 Nov Sun>=29 3:00s",
                         "2009 Jan Mon<=3 2:00"):
                for nx in ("-", "same"):
                    nxt = (hm(off + 60), "-", "FIX") if nx == "-" else (hm(off), "PA", "B%sT")
                    src([("PA", pa)], [(hm(off + 7), "-", "LMT", "1980"), (hm(off), "PA", "A%sT", form), nxt], "%s/%s/until-dow/%s" % (h, nx, form))
    return out


# ---------------------------------------------------------------------------------------------------------------------
# exploration layer (used by tools/wild.py, not by the registered checks): the restrictions of the registered layer are
# lifted - rules in any month, several rules per month, era boundaries anywhere incl. on rule transitions and as weekday
# expressions, policy year ranges that start / stop around the era changes
# ---------------------------------------------------------------------------------------------------------------------

@st.composite
def wild_on_day(draw):
    kind = draw(st.sampled_from(["d", "last", "ge", "le"]))
    if kind == "d":
        return str(draw(st.integers(1, 28)))
    w = draw(st.sampled_from(DOW))
    if kind == "last":
        return "last" + w
    if kind == "ge":
        return "%s>=%d" % (w, draw(st.integers(1, 28)))
    return "%s<=%d" % (w, draw(st.integers(2, 28)))


@st.composite
def wild_policy(draw, name, basic, years):
    nr = draw(st.integers(1, 5))
    rules = []
    save = draw(st.sampled_from([60, 60, 30, 120]))
    for i in range(nr):
        y0 = draw(st.sampled_from(years)) + draw(st.integers(-2, 2))
        kind = draw(st.sampled_from(["max", "max", "only", "range"]))
        to = "max" if kind == "max" else ("only" if kind == "only" else str(min(2037, y0 + draw(st.integers(1, 6)))))
        if to != "max" and to != "only" and int(to) <= y0:
            to = "only"
        if y0 > 2037:
            y0 = 2037
        mo = draw(st.integers(1, 12))
        on = draw(wild_on_day())
        at = draw(at_time(basic))
        sv = draw(st.sampled_from([0, 0, save]))
        letter = "S" if sv == 0 else "D"
        rules.append(("Rule", name, y0, to, "-", MON[mo - 1], on, at, hm(sv) if sv else "0", letter))
    return {"name": name, "rules": rules, "features": set(), "multi": False}


@st.composite
def source_wild(draw, basic=False):
    years = sorted(draw(st.lists(st.integers(1996, 2034), min_size=2, max_size=4, unique=True)))
    pols = [draw(wild_policy("P%c" % (65 + i), basic, years)) for i in range(draw(st.integers(1, 2)))]
    off = draw(st.integers(-12 * 60, 12 * 60))
    if basic:
        off = (off // 15) * 15
    eras = [(hm(off + 7 if not basic else off), "-", "LMT", str(draw(st.integers(1975, 1988))))]
    n = draw(st.integers(1, len(years)))
    for i in range(n):
        if i:
            off = max(-900, min(900, off + draw(st.sampled_from([0, 0, 60, -60, 30 if not basic else 60]))))
        kind = draw(st.sampled_from(["-", "fixed", "pol", "pol", "pol"]))
        if kind == "-":
            rules, fmt = "-", draw(st.sampled_from(["XST", "ABCD"]))
        elif kind == "fixed":
            rules, fmt = "1:00", "XDT"
        else:
            rules, fmt = draw(st.sampled_from(pols))["name"], draw(st.sampled_from(["X%sT", "AAA/BBBB"]))
        if i < n - 1:
            y = years[i]
            form = draw(st.sampled_from(["y", "ym", "ymd", "ymdt", "dow"])) if not basic else "y"
            if form == "y":
                until = str(y)
            else:
                mo = draw(st.integers(1, 12))
                until = "%d %s" % (y, MON[mo - 1])
                if form == "dow":
                    until += " " + draw(wild_on_day()) + " " + hm(draw(st.sampled_from([0, 60, 120, 180]))) + draw(st.sampled_from(["", "s", "u"]))
                elif form in ("ymd", "ymdt"):
                    until += " %d" % draw(st.integers(1, 28))
                    if form == "ymdt":
                        until += " " + hm(draw(st.sampled_from([0, 60, 120, 180, 1440, 90]))) + draw(st.sampled_from(["", "s", "u"]))
        else:
            until = ""
        eras.append((hm(off), rules, fmt, until))
    eras = [e + ("",) * (4 - len(e)) for e in eras]
    return {"policies": pols, "zones": [{"name": "Gen/Zone0", "eras": eras, "features": set()}], "links": []}
