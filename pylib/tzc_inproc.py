"""Run tools/tzcompiler.py several times inside ONE interpreter (the way a script that imports the generators would):
argv[1] = path of a json list of jobs {input_dir, output_dir, scope, language, start_year, until_year, tz_version}.
Prints one line 'JOB <i> <rc>' per job. Used by C20 (an artifact must not depend on what was compiled before it)."""
import json
import os
import sys


def main():
    jobs = json.load(open(sys.argv[1]))
    repo_tools = sys.argv[2]
    sys.path.insert(0, repo_tools)
    import tzcompiler
    for i, j in enumerate(jobs):
        os.makedirs(j["output_dir"], exist_ok=True)
        os.chdir(j["output_dir"])
        sys.argv = ["tzcompiler.py", "--input_dir", j["input_dir"], "--output_dir", j["output_dir"], "--tz_version", j["tz_version"],
                    "--action", "zonedb,zonelist,tzdb", "--language", j["language"], "--scope", j["scope"],
                    "--start_year", str(j["start_year"]), "--until_year", str(j["until_year"])] + list(j.get("extra_args", []))
        rc = 0
        try:
            tzcompiler.main()
        except SystemExit as e:
            rc = e.code if isinstance(e.code, int) else 1
        except Exception as e:       # reported by the caller as a failed job
            sys.stderr.write("job %d: %r\n" % (i, e))
            rc = 99
        print("JOB %d %d" % (i, rc), flush=True)


if __name__ == "__main__":
    main()
