#!/usr/bin/env python3
"""Regenerates /verif/MANIFEST.json from the table below (keeps it valid at all times)."""
import json
import os

VERIF = os.path.dirname(os.path.dirname(os.path.abspath(__file__)))

CHECKS = {
    "C01": dict(
        technique="complete minute-stride sweep + per-second probes vs independent compiler (zic/zdump/zoneinfo) differential",
        text="All 387 extended zones x all of 2000..2049: quick = 60 s stride (1.0e10 evaluations) with every change "
             "located to the second, every second within +-120 s of every oracle transition and library change, and "
             "ZonedDateTime field probes; thorough = the literal per-second sweep. The piecewise-constant function "
             "(offset, DST flag, abbreviation) must be identical to the one zic/zdump/zoneinfo derive from the same "
             "Zone/Rule lines. Because the data model is minute-granular this decides the property completely for "
             "the shipped database in the quick tier up to sub-minute blips away from any transition, and literally "
             "in the thorough tier.",
        note="Trusts glibc zic+zdump and CPython zoneinfo (cross-checked per transition); source lines are the "
             "comments recorded beside the table entries (C12 ties comments to values); host build, shim.",
        design="2/C01"),
    "C02": dict(
        technique="complete minute-stride sweep vs zic differential + Basic/Extended differential + dropped-transition hook counter",
        text="All 268 basic zones x 2000..2049 as in C01, plus every second of every Dec 31/Jan 1 UTC (the previous-year "
             "cache path), plus stream equality Basic vs Extended for every shared zone name, plus the guarded hook "
             "counter of dropped transitions must be 0.",
        note="Same trusted base as C01; hook SEANDST_ACETIME_VERIF (add-only counter).",
        design="2/C02"),
    "C07": dict(
        technique="generated wall times (complete transition neighbourhoods + seeded random) vs occurrence-set oracle derived from zic",
        text="Every zone of zonedbx and zonedb x every wall minute within +-200 min of every transition, every minute of the first and last two days of 2000-01-01T00:00:00..2049-12-31T23:59:59 local, every second within "
             "+-61 s of every gap/overlap edge (thorough: +-1 h and EVERY wall minute of the fifty years, 1.8e10 resolutions), all Dec 31/Jan 1 wall minutes, and 500 (thorough 5,000) "
             "seed-drawn wall times per zone: ~1e8 resolutions per run. Expected result computed from the set of real "
             "occurrences {t : t+utoff(t)=w} of the zic oracle; checks non-error, normalisation, identity when unique, "
             "later occurrence (Extended) / any occurrence (Basic) in overlaps, pre-gap offset in gaps.",
        note="Same oracle trust as C01/C02 (oracle extended three days beyond 2000..2049).",
        design="2/C07"),
    "C08": dict(
        technique="Hypothesis rule-based state machine + exhaustive two-step histories, fresh-instance differential oracle, ASan/UBSan",
        text="History independence: (1) exhaustive enumeration, per sampled zone (thorough: every zone), of every ordered pair of "
             "years 1998..2051 x every ordered pair of query kinds as a two-step history on one processor plus A;B;A zone "
             "interleavings over every ordered pair of years, three-step histories q(y1); q(y2); q(y1) over every ordered pair of years, re-binding histories q(A); q(B); q(A) over every ordered pair of basic zones with several eras (a sample of the extended ones; thorough: 2000 pairs) two editions of one zone (same name and id, other eras) handed to one manager of cache size 1..4, and wall times inside the overlap / gap of every offset change asked after a query on either side of it (3e7 histories quick); (2) a Hypothesis RuleBasedStateMachine over shared processors, managers "
             "with cache size 1..4 holding 2..8 zones, creation by name/id/index/info, queries incl. out-of-range/sentinel, "
             "repeat-last, alternate and same-year-other-instant rules, on an ASan+UBSan build; the exhaustive part also takes same-year pairs of different instants. Every answer is compared with the same query on a "
             "brand-new processor; failures are collected, bucketed and minimised by delta debugging into replayable op lists.",
        note="Oracle is the fresh instance (tied to zic by C01/C02/C07). Instants within 1932..2067 + sentinel. Python "
             "ZoneSpecifier history independence is exercised in C04.",
        design="2/C08"),
    "C10": dict(
        technique="enumerated registries x enumerated/generated queries vs linear-scan reference model, ASan/UBSan + hang timeout",
        text="Registries of size 0..40 (sorted prefix/tail/subset, shuffled, first/last pair swapped) and the two full registries "
             "of each database; queries: all present names/ids/indices, an absent name in every gap, below/above the ends, "
             "prefixes, extensions, absent names constructed to have the djb2 hash of a present name, id+-1, 0, 0xFFFFFFFF, indices beyond the end, plus Hypothesis-drawn byte strings; through "
             "indexForZoneName/Id and createForZoneName/Id/Index. Exact agreement with a linear scan; 1 s per-lookup hang bound; "
             "sanitizers report reads outside the registry; registries listed in ascending zone-id order; plus Hypothesis-drawn histories of 6..30 lookups (incl. createForZoneInfo outside the registry and immediate repeats) over 2..3 registries living in one fresh process.",
        note="No duplicate entries are generated; sizes above 40 only via the full registries.",
        design="2/C10"),
    "C11": dict(
        technique="exhaustive enumeration over all zones/links/constants vs independent djb2 + set algebra; Hypothesis names and constructed collisions",
        text="Every registry entry, declared zone symbol, link symbol and kZoneId constant of zonedb and zonedbx (decoded through the "
             "brokers and a TU generated from zone_infos.h), every zonedbpy name, every baseline name, and the databases freshly "
             "compiled by tzcompiler.py (C++ and Python) from the reconstructed source and from a names source ('+', '-', '_', colliding identifiers, links to each): id == djb2(name), unique, equal across databases and the "
             "recorded baseline, registry strictly ascending and equal to the declared set, link address/name == target; "
             "Hypothesis-generated names for hash_name and constructed djb2 collisions (placed first, last and at drawn positions) for _detect_hash_collisions. Complete over "
             "the shipped data.",
        note="'Earlier releases' = baselines/zone_ids.tsv recorded from the shipped 1.2.1 tables.",
        design="2/C11"),
    "C12": dict(
        technique="exhaustive per-field round trip (generator -> clang -> brokers) + translation check of shipped tables against regeneration",
        text="(a) the full product of admissible values per encoded field (4,503 AT/UNTIL times x suffix in rule and era position, 1,921 "
             "extended / 129 basic offsets, 16 SAVE values, boundary years, single and 1..31 multi-character letters) pushed through "
             "ArduinoGenerator.generate_files, compiled, and read back through the Zone*Brokers; (b) every shipped zonedb/zonedbx file "
             "equals tzcompiler.py's output on the recorded raw lines (token level) and decodes to the same values.",
        note="Single letters restricted to [A-Za-z0-9+-^_]. Unsupported/notable comment lists and the invocation header are ignored in (b).",
        design="2/C12", category="exploration"),
    "C13": dict(
        technique="exhaustive (phase, gap) enumeration + Hypothesis stateful schedules vs unbounded-integer reference model",
        text="SystemClock with an injected millisecond counter: in-driver enumeration of every start phase mod 65536 x 210 gaps "
             "and all gaps 1..64536 x 64 phases (thorough: the full 4.2e9 product) with the counter straddling 2^16 and 2^32, all "
             "phases x two-step schedules at the carried-remainder limit; plus Hypothesis rule-based schedules (set, set near the "
             "shown second, sentinel, setup from backup, polled and unpolled advances up to exactly the limit) against the "
             "model read = T + floor((m - m0)/1000); failures are shrunk to a replayable schedule.",
        note="A re-set to the second currently shown may keep the older sub-second phase (documented early return; counted). "
             "The counter is reported modulo 2^32 or unbounded; AVR 16-bit int promotion not modelled.",
        design="2/C13"),
    "C14": dict(
        technique="bounded exhaustive enumeration of environment sequences + Hypothesis-generated histories, invariants over the logged history",
        text="Real SystemClockLoop with scripted reference/backup clocks that log every call. All sequences over {4-5 step sizes} x "
             "{not ready, valid(const), valid(varying), valid(echo of the current reading), invalid} to depth 4-5 (thorough 5-6) for 8 (config, wiring) combinations "
             "(1.6e6 sequences quick), plus Hypothesis histories of 20..120 (300) steps over 5 configurations x 5 wirings. "
             "Invariants I1..I6 (apply valid response + backup write rule, failures never change clock/last-sync, request spacing "
             ">= retry period with doubling/cap/reset and never longer than max(sync, initial), bounded progress, time kept through loop() alone without a reference clock, no calls without a reference, readResponse only when ready).",
        note="Bounded depth for the exhaustive part; LP64 host: loop()'s unsigned long arithmetic does not wrap at 2^32 here.",
        design="2/C14", category="exploration"),
    "C03": dict(
        technique="differential testing against an independent compiler (zic) over five source corpora (reconstructed, real 2025b, names, 576 enumerated era-boundary x rule sources, Hypothesis grammar); accounting invariant over the transformer output",
        text="Corpora: source reconstructed from the shipped tables, the vendored real 2025b release (443 zones; expansion validated "
             "against zic on the original), a 'names' source (duplicate normalised names, links to removed zones), about 900 extended / 215 basic enumerated sources (hemisphere x next-era kind x STDOFF step x UNTIL form x AT suffix, era boundaries +-2 h / +-5 h around rule transitions in u/s/w, policies that start or stop around the era change, one-off extra rules in the month of a regular rule, January / December rules at an era change, month-end rules next to an era start, 3..5 transitions a year, policies starting around the first database year, weekday UNTIL forms, policies that ended before their era with two latest rules in one month, six-character abbreviations, a second standard-time LETTER, STD/DST FORMAT with fixed RULES); era changes at the edges of the range, SAVE spelled '0:00'; capacity probes (six transitions a year, seven eras a year, a pool of nine) and Hypothesis-generated small sources (both scopes, varying year ranges). For every "
             "(source, scope): tzcompiler.py -> generated C++ tables compiled into the sweep driver (path A: 300 s stride + per-second "
             "windows at every oracle transition + field probes; thorough 60 s) and Extractor->Transformer->InlineGenerator->"
             "ZoneSpecifier in-process (path P) must equal zic's function over [start_year, until_year); every input zone/link/policy is "
             "emitted xor removed with a reason; extractor counters are 0; generated bufSize exceeds the pool high-water; generated "
             "sources go through path P one by one and through path A compiled together.",
        note="Zones with a truncation note are excluded from the semantic clause (counted: none in the corpora). 4 of 447 2025b zones "
             "need a multi-SAVE %z expansion and are left out. Generated zones whose zic output the two oracle readers disagree on are "
             "discarded and counted. The probes of the four repaired C03 findings run on every invocation.",
        design="2/C03", category="exploration"),
    "C19": dict(
        technique="Hypothesis-drawn and table-constructed (zone, range, interval) cases vs the third-party libraries' own transition tables; render/read-back round trip",
        text="compare_pytz / compare_dateutil TestDataGenerator on cases constructed from the library's transition table (a transition "
             "near the end of the range, ~1/3 of the cases) and Hypothesis-drawn cases over all zones, ranges within 2000..2037, sampling "
             "intervals 1..72 h and both detect_dst settings (thorough: every zone for 2000..2037): items sorted/unique, every item "
             "equals a fresh library evaluation, every qualifying table transition bracketed by an adjacent-minute A/B (a/b) pair, "
             "monthly and year-end samples; 10 data sets rendered by ArduinoValidationGenerator, compiled and read back.",
        note="For dateutil the bracketing clause excludes zones with negative DST, DST-only changes and the last table entry (library API "
             "and table disagree there; counted). validator.zstdgenerator is checked on tools/zonedbpy zones against ZoneSpecifier's transitions (A/B pair at adjacent seconds) and pytz (fields), including year-end cases constructed from the transition list.",
        design="2/C19"),
    "C20": dict(
        technique="metamorphic relations over compiler runs (repeat under another hash seed, import vs in-memory, counts vs entries, basic vs extended differential) + zic differential on the checked-in Python database",
        text="Sources {reconstructed 2020d, real 2025b, a seconds/odd-minute source} x scope x language x two (small source: eight) runs in fresh interpreters with different "
             "PYTHONHASHSEED: R1 byte-identical files (canonical reason order), R1c the same artifacts when eight or nine compilations (small sources x scope x language, three orders, incl. two sources whose zone names share a C++ identifier and a zone name) run inside one interpreter, R2 imported zone_infos.py/zone_policies.py == "
             "InlineGenerator maps, R3 zones.txt == emitted set, R4 every stated count == counted entries (incl. kZoneRegistrySize), R5 "
             "basic zones subset of extended with equal RLE streams through the two fresh builds unless the zone carries a truncation note, R6 every tools/zonedbpy zone x "
             "2000..2037 vs zic on its recorded lines.",
        note="R1 ignores the invocation line (contains the output path).",
        design="2/C20"),
    "C04": dict(
        technique="differential testing (C++ vs Python reference implementation, and 8 Python configurations against each other) on generated instants and wall times",
        text="Freshly compiled sources (real 2025b for 1995..2040, enumerated + Hypothesis-drawn small sources, a source with second-resolution offsets; C++ on the generated tables, Python on the compiler's in-memory tables) and: "
             "Every zone of zonedbx, decoded by the C++ brokers and mapped to the Python data model (same data by construction): C++ "
             "(offset, DST offset, abbreviation) vs ZoneSpecifier at every change instant +-1 s of either side and month starts; the "
             "offset selected for every wall minute within +-180 min of every transition (breakpoint sub-intervals of either side), "
             "year ends and seed-drawn wall times; option sets {default, 13-month/basic/basic} on all zones and all 8 on 40 seed-drawn "
             "zones (thorough: all), comparing answers and per-year transition lists; Python history independence on random year orders.",
        note="Freshly compiled sources are covered by C03/C20 (InlineGenerator data vs generated tables). One known finding (13-month "
             "window, Asia/Khandyga) is listed in KNOWN_FINDINGS.txt.",
        design="2/C04"),
    "C09": dict(
        technique="coverage-guided fuzzing (libFuzzer) + seeded structured generation of op sequences under ASan/UBSan with an in-target error-value oracle; bounded exhaustive sequences; buffer high-water invariant",
        text="Byte-decoded op sequences over 24 op families of the public surface with boundary-biased argument pools: a seeded generator "
             "(6.4e5 inputs, ~1e7 ops quick) and a libFuzzer campaign (8 x 45 s quick, 16 x 20 min thorough); every UBSan site is "
             "collected in recover mode with the input that reached it, fatal ASan errors through the death callback; oracle: out-of-"
             "domain arguments give the documented error value twice. Exhaustive length<=4 sequences over {valid, below, above, "
             "sentinel} x {off, delta, abbrev, odt, print} vs a fresh processor for sampled (thorough: all) zones. Clause (c): per "
             "zone and year 1999..2050 the pool high-water is below the recorded size and the capacity and the basic drop counter is 0, "
             "and all three accessors run without a sanitizer report, on shipped, regenerated and ~1,000 enumerated compiler-generated zones (C03 adds the 2025b and Hypothesis-generated sources).",
        note="14 signed-overflow sites at the int32 representability limits are listed as known findings (keyed kind@File:function). "
             "Out-of-range oracle allows one year of slack around the accepted window 1999..2050.",
        design="2/C09"),
    "C05": dict(
        technique="strided / boundary-targeted generation of instants, round-trip and metamorphic (conversion-invariance) oracles",
        text="33 manual (std,dst) offset pairs x epoch seconds at stride 4099 (thorough: stride 1 for 2 pairs over the whole valid "
             "int32 range, stride 61 for the rest) plus every UTC and local day boundary +-3 s; every zone of both registries (direct "
             "and manager-created) x every transition +-2 s, surrounding midnights, year ends and a 7919 s grid. Identities checked: "
             "round trip, Unix variants (+946684800), convertToTimeZone / convertToTimeOffset keep the instant, compareTo orders by "
             "instant across zones and inside one zone across fall-back transitions. ~4.7e9 relation instances per quick run.",
        note="Valid domain: one day plus the largest offset away from the int32 limits (README); Unix variants where representable. "
             "Sampled, not exhaustive, in the quick tier.",
        design="2/C05"),
    "C15": dict(
        technique="exhaustive + Hypothesis-generated values vs format-string reference model, print/parse round trip",
        text="All 93,136 dates x 4 times and Hypothesis-drawn date-times, every offset -5999..5999 minutes, seed-drawn offset date-times "
             "x ~60 offsets incl. -00:59..-00:01, every zone of both registries x 20 instants (direct and managed; the previous value is re-printed after each request), zoned date-times from components over years 1873..2127 and manual zones: "
             "printed text must equal the reference format exactly and parse back to an equal value (const char* and F() parsers); "
             "error placeholders incl. values with exactly one invalid part; 24:00:00; every proper prefix of a valid text per parser must give an error value.",
        note="Trusts the shim's Print/printPad2To. Malformed text of full length is documented as unspecified (memory safety: C09).",
        design="2/C15"),
    "C16": dict(
        technique="enumeration over all zones/kinds + Hypothesis-drawn equality pools vs value model, save/restore round trip, fresh-instance differential",
        text="Every zone of both registries as direct and manager-created (name/id/index/info) values: toTimeZoneData -> "
             "createForTimeZoneData through the full manager, the other database's manager and subset registries with/without the "
             "zone; equality with createForZoneId, identical answers to a fresh zone; manual grid 129 x 13 + extremes; error zones; all "
             "256 serialised type bytes; operator==/!= on Hypothesis-drawn pools of 30..60 values of all kinds vs the value model. "
             "ASan+UBSan build.",
        note="Manual sums outside int16 are not generated.",
        design="2/C16"),
    "C17": dict(
        technique="exhaustive enumeration vs integer-arithmetic reference model",
        text="All 1,843,199 period second counts (round trip, ranges, negate), ~2,050^2 compareTo/==/!= pairs, all int8 (hour,minute) "
             "pairs, all int16 minute values, increment15Minutes on -1000..1000 and its 129-step cycle, every start value 0..255 of "
             "every increment helper and every limit 1..255. Complete over the stated finite domains.",
        note="Trusts the shim's incrementMod/incrementModOffset (AceCommon semantics).",
        design="2/C17"),
    "C18": dict(
        technique="exhaustive enumeration, three-way differential (C++ / Python / calendar-by-enumeration oracle), sanitizer run on admitted cases",
        text="Years 1873..2126 x months x weekdays 0..7 x day-of-month -31..31 (1.3e6 cases): the admitted set is computed by running the "
             "real transformer step; on admitted cases C++ == Python == calendar and the answer stays within the year; zone UNTIL-day "
             "path; admitted cases re-run under ASan+UBSan; ON-string grammar and Hypothesis near-misses through the parser.",
        note="Trusts datetime.date. UNTIL-day path and sanitizer run cover 28+ years in the quick tier, all years in thorough.",
        design="2/C18"),
    "C06": dict(
        technique="exhaustive enumeration + strided generation vs calendar oracle (datetime / days-from-civil differential)",
        text="Exhaustive enumeration of all 93,136 dates (plus all out-of-range component tuples in a surrounding "
             "box), all 2^24 time triples and all 86,400 second-of-day values against CPython datetime/calendar; "
             "epoch seconds: quick = stride 9973 with seed-chosen phase + every day boundary +-2 s + int32 limits, "
             "thorough = all 2^32-1 values, against a structurally different days-from-civil oracle that is itself "
             "re-validated against datetime on 20,010 random points each run. Complete over the stated finite "
             "domains in the thorough tier.",
        note="Trusts CPython datetime/calendar; host build with 32-bit int (AVR integer promotion not modelled); "
             "built -O2 without sanitizers (UB at the int32 limits is C09's subject).",
        design="2/C06"),
}

NOT_YET = {
}


def main():
    props = [json.loads(l) for l in open(os.path.join(VERIF, "properties.jsonl"))]
    checks = []
    na = []
    for p in props:
        pid = p["id"]
        if pid in CHECKS:
            c = CHECKS[pid]
            checks.append({
                "property_id": pid,
                "quick_cmd": "./check %s --tier quick" % pid,
                "thorough_cmd": "./check %s --tier thorough" % pid,
                "evidence_file": "evidence/%s.json" % pid,
                "replay_cmd_template": "./check %s --replay {path}" % pid,
                "engine": "acetime-pbt",
                "level_claimed": {"category": c.get("category", "exploration"), "text": c["text"],
                                  "design_ref": "DESIGN.md section " + c["design"]},
                "level_note": c["note"],
                "technique": c["technique"],
            })
        else:
            na.append({"property_id": pid,
                       "reason": NOT_YET.get(pid, "check not built yet in this round (planned in DESIGN.md section 2/%s); "
                                                  "the technique applies, nothing is claimed until the check exists" % pid)})
    m = {
        "version": 1,
        "setup_cmd": "./setup.sh",
        "hooks": {
            "guard": "SEANDST_ACETIME_VERIF",
            "enable": "checks compile /repo/src with -DSEANDST_ACETIME_VERIF=1 when env SEANDST_ACETIME_VERIF=1 (set by ./check)",
            "baseline_off_cmd": "cd /repo && env -u SEANDST_ACETIME_VERIF /venv/bin/python -m pytest -ra -q -p no:cacheprovider --timeout=900 --continue-on-collection-errors",
            "source_commits": HOOK_COMMITS,
            "add_only": True,
        },
        "engines": [{
            "name": "acetime-pbt", "path": "check",
            "serves_properties": [c["property_id"] for c in checks],
            "kind_free_text": "property-based testing / fuzzing: Hypothesis generators and state machines, exhaustive "
                              "enumeration of finite domains, libFuzzer targets under ASan+UBSan, all against explicit "
                              "oracles (zic, datetime, reference models, fresh-instance differentials)",
        }],
        "checks": checks,
        "not_applicable": na,
        "notes": "Every check rebuilds the C++ under test from $VERIF_REPO (default /repo) into /verif/.build/<id>.<pid>/ "
                 "and removes it. Exit 0 held / 1 VIOLATION / 2 harness error. Known findings: KNOWN_FINDINGS.txt. Every run of a "
                 "check also replays the saved minimal inputs of repaired findings (replays/<id>/fixed_*.json), so a defect "
                 "that returns is reported even if the generated search does not rediscover it.",
    }
    with open(os.path.join(VERIF, "MANIFEST.json"), "w") as f:
        json.dump(m, f, indent=1)
        f.write("\n")
    print("MANIFEST.json: %d checks, %d not_applicable" % (len(checks), len(na)))


HOOK_COMMITS = ["e56c28e"]

if __name__ == "__main__":
    main()
