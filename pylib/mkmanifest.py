#!/usr/bin/env python3
"""Regenerates /verif/MANIFEST.json from the table below (keeps it valid at all times)."""
import json
import os

VERIF = os.path.dirname(os.path.dirname(os.path.abspath(__file__)))

CHECKS = {
    "C01": dict(
        technique="complete minute-stride sweep + per-second probes vs independent compiler (zic/zdump/zoneinfo) differential",
        text="All 387 extended zones x all of 2000..2049: quick = 60 s stride (1.0e10 evaluations) with every change "
             "located to the second, every second within +-120 s of every oracle transition and library change, and "
             "ZonedDateTime field probes; thorough = the literal per-second sweep. The piecewise-constant function "
             "(offset, DST flag, abbreviation) must be identical to the one zic/zdump/zoneinfo derive from the same "
             "Zone/Rule lines. Because the data model is minute-granular this decides the property completely for "
             "the shipped database in the quick tier up to sub-minute blips away from any transition, and literally "
             "in the thorough tier.",
        note="Trusts glibc zic+zdump and CPython zoneinfo (cross-checked per transition); source lines are the "
             "comments recorded beside the table entries (C12 ties comments to values); host build, shim.",
        design="2/C01"),
    "C02": dict(
        technique="complete minute-stride sweep vs zic differential + Basic/Extended differential + dropped-transition hook counter",
        text="All 268 basic zones x 2000..2049 as in C01, plus every second of every Dec 31/Jan 1 UTC (the previous-year "
             "cache path), plus stream equality Basic vs Extended for every shared zone name, plus the guarded hook "
             "counter of dropped transitions must be 0.",
        note="Same trusted base as C01; hook SEANDST_ACETIME_VERIF (add-only counter).",
        design="2/C02"),
    "C07": dict(
        technique="generated wall times (complete transition neighbourhoods + seeded random) vs occurrence-set oracle derived from zic",
        text="Every zone of zonedbx and zonedb x every wall minute within +-200 min of every transition, every second within "
             "+-61 s of every gap/overlap edge (thorough: +-1 h), all Dec 31/Jan 1 wall minutes, and 500 (thorough 5,000) "
             "seed-drawn wall times per zone: ~1e8 resolutions per run. Expected result computed from the set of real "
             "occurrences {t : t+utoff(t)=w} of the zic oracle; checks non-error, normalisation, identity when unique, "
             "later occurrence (Extended) / any occurrence (Basic) in overlaps, pre-gap offset in gaps.",
        note="Same oracle trust as C01/C02; wall times limited to 2000-01-03..2049-12-29.",
        design="2/C07"),
    "C08": dict(
        technique="Hypothesis rule-based state machine + exhaustive two-step histories, fresh-instance differential oracle, ASan/UBSan",
        text="History independence: (1) exhaustive enumeration, per sampled zone (thorough: every zone), of every ordered pair of "
             "years 1998..2051 x every ordered pair of query kinds as a two-step history on one processor plus A;B;A zone "
             "interleavings (5.9e6 histories quick); (2) a Hypothesis RuleBasedStateMachine over shared processors, managers "
             "with cache size 1..4 holding 2..8 zones, creation by name/id/index/info, queries incl. out-of-range/sentinel, "
             "repeat-last and alternate rules, on an ASan+UBSan build. Every answer is compared with the same query on a "
             "brand-new processor; failures are collected, bucketed and minimised by delta debugging into replayable op lists.",
        note="Oracle is the fresh instance (tied to zic by C01/C02/C07). Instants within 1932..2067 + sentinel. Python "
             "ZoneSpecifier history independence is exercised in C04.",
        design="2/C08"),
    "C10": dict(
        technique="enumerated registries x enumerated/generated queries vs linear-scan reference model, ASan/UBSan + hang timeout",
        text="Registries of size 0..40 (sorted prefix/tail/subset, shuffled, first/last pair swapped) and the two full registries "
             "of each database; queries: all present names/ids/indices, an absent name in every gap, below/above the ends, "
             "prefixes, extensions, id+-1, 0, 0xFFFFFFFF, indices beyond the end, plus Hypothesis-drawn byte strings; through "
             "indexForZoneName/Id and createForZoneName/Id/Index. Exact agreement with a linear scan; 1 s per-lookup hang bound; "
             "sanitizers report reads outside the registry.",
        note="No duplicate entries are generated; sizes above 40 only via the full registries.",
        design="2/C10"),
    "C13": dict(
        technique="exhaustive (phase, gap) enumeration + Hypothesis stateful schedules vs unbounded-integer reference model",
        text="SystemClock with an injected millisecond counter: in-driver enumeration of every start phase mod 65536 x 210 gaps "
             "and all gaps 1..64536 x 64 phases (thorough: the full 4.2e9 product) with the counter straddling 2^16 and 2^32, all "
             "phases x two-step schedules at the carried-remainder limit; plus Hypothesis rule-based schedules (set, set near the "
             "shown second, sentinel, setup from backup, polled and unpolled advances up to exactly the limit) against the "
             "model read = T + floor((m - m0)/1000); failures are shrunk to a replayable schedule.",
        note="A re-set to the second currently shown may keep the older sub-second phase (documented early return; counted). "
             "The counter is reported modulo 2^32 or unbounded; AVR 16-bit int promotion not modelled.",
        design="2/C13"),
    "C14": dict(
        technique="bounded exhaustive enumeration of environment sequences + Hypothesis-generated histories, invariants over the logged history",
        text="Real SystemClockLoop with scripted reference/backup clocks that log every call. All sequences over {4-5 step sizes} x "
             "{not ready, valid(const), valid(varying), invalid} to depth 4-5 (thorough 5-6) for 8 (config, wiring) combinations "
             "(1.6e6 sequences quick), plus Hypothesis histories of 20..120 (300) steps over 5 configurations x 5 wirings. "
             "Invariants I1..I6 (apply valid response + backup write rule, failures never change clock/last-sync, request spacing "
             ">= retry period with doubling/cap/reset, bounded progress, no calls without a reference, readResponse only when ready).",
        note="Bounded depth for the exhaustive part; LP64 host: loop()'s unsigned long arithmetic does not wrap at 2^32 here.",
        design="2/C14", category="exploration"),
    "C06": dict(
        technique="exhaustive enumeration + strided generation vs calendar oracle (datetime / days-from-civil differential)",
        text="Exhaustive enumeration of all 93,136 dates (plus all out-of-range component tuples in a surrounding "
             "box), all 2^24 time triples and all 86,400 second-of-day values against CPython datetime/calendar; "
             "epoch seconds: quick = stride 9973 with seed-chosen phase + every day boundary +-2 s + int32 limits, "
             "thorough = all 2^32-1 values, against a structurally different days-from-civil oracle that is itself "
             "re-validated against datetime on 20,010 random points each run. Complete over the stated finite "
             "domains in the thorough tier.",
        note="Trusts CPython datetime/calendar; host build with 32-bit int (AVR integer promotion not modelled); "
             "built -O2 without sanitizers (UB at the int32 limits is C09's subject).",
        design="2/C06"),
}

NOT_YET = {
}


def main():
    props = [json.loads(l) for l in open(os.path.join(VERIF, "properties.jsonl"))]
    checks = []
    na = []
    for p in props:
        pid = p["id"]
        if pid in CHECKS:
            c = CHECKS[pid]
            checks.append({
                "property_id": pid,
                "quick_cmd": "./check %s --tier quick" % pid,
                "thorough_cmd": "./check %s --tier thorough" % pid,
                "evidence_file": "evidence/%s.json" % pid,
                "replay_cmd_template": "./check %s --replay {path}" % pid,
                "engine": "acetime-pbt",
                "level_claimed": {"category": c.get("category", "exploration"), "text": c["text"],
                                  "design_ref": "DESIGN.md section " + c["design"]},
                "level_note": c["note"],
                "technique": c["technique"],
            })
        else:
            na.append({"property_id": pid,
                       "reason": NOT_YET.get(pid, "check not built yet in this round (planned in DESIGN.md section 2/%s); "
                                                  "the technique applies, nothing is claimed until the check exists" % pid)})
    m = {
        "version": 1,
        "setup_cmd": "./setup.sh",
        "hooks": {
            "guard": "SEANDST_ACETIME_VERIF",
            "enable": "checks compile /repo/src with -DSEANDST_ACETIME_VERIF=1 when env SEANDST_ACETIME_VERIF=1 (set by ./check)",
            "baseline_off_cmd": "cd /repo && env -u SEANDST_ACETIME_VERIF /venv/bin/python -m pytest -ra -q -p no:cacheprovider --timeout=900 --continue-on-collection-errors",
            "source_commits": HOOK_COMMITS,
            "add_only": True,
        },
        "engines": [{
            "name": "acetime-pbt", "path": "check",
            "serves_properties": [c["property_id"] for c in checks],
            "kind_free_text": "property-based testing / fuzzing: Hypothesis generators and state machines, exhaustive "
                              "enumeration of finite domains, libFuzzer targets under ASan+UBSan, all against explicit "
                              "oracles (zic, datetime, reference models, fresh-instance differentials)",
        }],
        "checks": checks,
        "not_applicable": na,
        "notes": "Every check rebuilds the C++ under test from $VERIF_REPO (default /repo) into /verif/.build/<id>.<pid>/ "
                 "and removes it. Exit 0 held / 1 VIOLATION / 2 harness error. Known findings: KNOWN_FINDINGS.txt.",
    }
    with open(os.path.join(VERIF, "MANIFEST.json"), "w") as f:
        json.dump(m, f, indent=1)
        f.write("\n")
    print("MANIFEST.json: %d checks, %d not_applicable" % (len(checks), len(na)))


HOOK_COMMITS = ["e56c28e"]

if __name__ == "__main__":
    main()
