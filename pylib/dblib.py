"""Decoded view of compiled AceTime databases (dumpdb driver + generated symbol table TU)."""
import json
import os
import re

import vt

DECL = re.compile(r"^extern const (basic|extended)::ZoneInfo(&?) (kZone\w+); // (\S+)(?: -> (\S+))?\s*$")
IDDECL = re.compile(r"^const uint32_t (kZoneId\w+) = (0x[0-9a-fA-F]+); // (\S+)\s*$")


def parse_infos_h(path):
    zones, links, ids = [], [], []
    for line in open(path):
        m = DECL.match(line.rstrip("\n"))
        if m:
            if m.group(2) == "&" or m.group(5):
                links.append({"symbol": m.group(3), "alias": m.group(4), "target": m.group(5), "ref": m.group(2) == "&"})
            else:
                zones.append({"symbol": m.group(3), "name": m.group(4)})
            continue
        m = IDDECL.match(line.rstrip("\n"))
        if m:
            ids.append({"symbol": m.group(1), "value": int(m.group(2), 16), "name": m.group(3)})
    return zones, links, ids


def gen_symbols_cpp(specs, out_path):
    """specs: [(dbletter, namespace, broker_ns, infos_h_path)]"""
    L = ['#include "verif_acetime.h"', "#include <stdio.h>", "#include <string>", "using namespace ace_time;",
         "static std::string sjs(const char* s) { std::string o = \"\\\"\"; for (; *s; s++) { if (*s == '\"' || *s == '\\\\') o += '\\\\'; o += *s; } return o + \"\\\"\"; }",
         "void dump_symbols() {"]
    for db, ns, bns, path in specs:
        zones, links, ids = parse_infos_h(path)
        sym_of = {z["name"]: z["symbol"] for z in zones}
        for z in zones:
            L.append('  printf("{\\"sym\\":\\"%s\\",\\"kind\\":\\"zone\\",\\"symbol\\":\\"%s\\",\\"declared\\":\\"%s\\",\\"addr\\":\\"%%p\\",\\"name\\":%%s,\\"id\\":%%u}\\n", '
                     '(const void*) &%s::%s, sjs(%s::ZoneInfoBroker(&%s::%s).name()).c_str(), (unsigned) %s::ZoneInfoBroker(&%s::%s).zoneId());'
                     % (db, z["symbol"], z["name"], ns, z["symbol"], bns, ns, z["symbol"], bns, ns, z["symbol"]))
        for l in links:
            tsym = sym_of.get(l["target"])
            taddr = "(const void*) &%s::%s" % (ns, tsym) if tsym else "(const void*) 0"
            L.append('  printf("{\\"sym\\":\\"%s\\",\\"kind\\":\\"link\\",\\"symbol\\":\\"%s\\",\\"declared\\":\\"%s\\",\\"target\\":\\"%s\\",\\"addr\\":\\"%%p\\",\\"target_addr\\":\\"%%p\\",\\"name\\":%%s,\\"id\\":%%u}\\n", '
                     '(const void*) &%s::%s, %s, sjs(%s::ZoneInfoBroker(&%s::%s).name()).c_str(), (unsigned) %s::ZoneInfoBroker(&%s::%s).zoneId());'
                     % (db, l["symbol"], l["alias"], l["target"], ns, l["symbol"], taddr, bns, ns, l["symbol"], bns, ns, l["symbol"]))
        for i in ids:
            L.append('  printf("{\\"symid\\":\\"%s\\",\\"symbol\\":\\"%s\\",\\"declared\\":\\"%s\\",\\"literal\\":%d,\\"value\\":%%u}\\n", (unsigned) %s::%s);'
                     % (db, i["symbol"], i["name"], i["value"], ns, i["symbol"]))
    L.append("}")
    with open(out_path, "w") as f:
        f.write("\n".join(L) + "\n")


def dump_shipped(check_id, sanitize=False):
    """Build dumpdb (+ symbol table) against the shipped databases and return the parsed records."""
    repo = vt.REPO
    d = vt.build_dir(check_id)
    sym = os.path.join(d, "gen_symbols.cpp")
    gen_symbols_cpp([("x", "zonedbx", "extended", os.path.join(repo, "src/ace_time/zonedbx/zone_infos.h")),
                     ("b", "zonedb", "basic", os.path.join(repo, "src/ace_time/zonedb/zone_infos.h"))], sym)
    exe = vt.build(check_id, "dumpdb", ["dumpdb.cpp"], extra=["-DVDB_SYMBOLS=1"], extra_sources=[sym], sanitize=sanitize, opt="-O1")
    rc, out, err = vt.run_exe(exe, [], timeout=600)
    if rc != 0:
        raise vt.HarnessError("dumpdb failed rc=%s: %s" % (rc, (err or "")[-800:]))
    return parse_dump(out)


def parse_dump(out):
    res = {"zones": {"x": [], "b": []}, "meta": {}, "syms": {"x": [], "b": []}, "symids": {"x": [], "b": []}}
    for line in out.splitlines():
        o = json.loads(line)
        if "meta" in o:
            res["meta"][o["meta"]] = o
        elif "sym" in o:
            res["syms"][o["sym"]].append(o)
        elif "symid" in o:
            res["symids"][o["symid"]].append(o)
        else:
            res["zones"][o["db"]].append(o)
    return res
