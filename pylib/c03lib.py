"""Shared machinery for C03 / C20: the compiler pipeline in-process (Extractor -> Transformer -> InlineGenerator ->
ZoneSpecifier), accounting of inputs vs outputs, comparison of the Python path against the zic oracle."""
import contextlib
import datetime as dtm
import io
import logging
import os
import re

import tzoracle
import vt

EPOCH_DT = dtm.datetime(2000, 1, 1)


def source_names(src_text):
    """Names present in a long-form TZ source: (zones, link aliases {alias: target}, policies)."""
    zones, links, pols = [], {}, []
    for line in src_text.splitlines():
        line = line.split("#", 1)[0].rstrip()
        if line.startswith("Zone"):
            zones.append(line.split()[1])
        elif line.startswith("Link"):
            f = line.split()
            links[f[2]] = f[1]
        elif line.startswith("Rule"):
            n = line.split()[1]
            if n not in pols:
                pols.append(n)
    return zones, links, pols


@contextlib.contextmanager
def quiet():
    logging.disable(logging.CRITICAL)
    try:
        with contextlib.redirect_stdout(io.StringIO()), contextlib.redirect_stderr(io.StringIO()):
            yield
    finally:
        logging.disable(logging.NOTSET)


def pipeline(input_dir, scope, start_year, until_year, strict=False):
    """Run Extractor + Transformer + InlineGenerator in-process (as tzcompiler.py does). Returns a dict, or raises the
    compiler's own exception / SystemExit."""
    from tzdb.extractor import Extractor
    from tzdb.transformer import Transformer
    from zonedb.ingenerator import InlineGenerator
    with quiet():
        ex = Extractor(input_dir)
        ex.parse()
        rules_map, zones_map, links_map = ex.get_data()
        counters = {k: getattr(ex, k) for k in ("invalid_rule_lines", "invalid_zone_lines", "invalid_link_lines",
                                                "ignored_rule_lines", "ignored_zone_lines") if hasattr(ex, k)}
        in_zones, in_links, in_pols = set(zones_map), dict(links_map), set(rules_map)
        tr = Transformer(zones_map, rules_map, links_map, scope, start_year, until_year, 60, 60 if scope == "extended" else 900, strict)
        tr.transform()
        (zm, rm, lm, rz, rp, rl, nz, npol, nl, fs, zs) = tr.get_data()
        ig = InlineGenerator(zm, rm)
        infos, policies = ig.generate_maps()
    return {"infos": infos, "policies": policies, "zones_map": zm, "rules_map": rm, "links_map": lm, "removed_zones": rz,
            "removed_policies": rp, "removed_links": rl, "notable_zones": nz, "notable_policies": npol, "notable_links": nl,
            "extractor_counters": counters, "in_zones": in_zones, "in_links": in_links, "in_policies": in_pols}


def accounting(src_text, res):
    """Every input zone / link / policy is either emitted or listed as removed with a reason. -> list of problems.
    `res` needs zones_map, links_map, rules_map, removed_* (tzdb.json or pipeline())."""
    problems = []
    zones, links, pols = source_names(src_text)
    emitted, removed = set(res["zones_map"]), set(res["removed_zones"])
    for z in zones:
        if z not in emitted and z not in removed:
            problems.append(("zone-lost", z, "input zone %s is neither emitted nor listed as removed" % z))
    for z in emitted & removed:
        problems.append(("zone-both", z, "zone %s is both emitted and listed as removed" % z))
    for z in emitted - set(zones):
        problems.append(("zone-invented", z, "emitted zone %s is not in the source" % z))
    for z in removed - set(zones):
        problems.append(("removed-zone-not-in-source", z, "removed_zones lists %s, which is not an input zone (reasons %r)" % (z, res["removed_zones"][z])))
    for z, rs in res["removed_zones"].items():
        if not rs:
            problems.append(("zone-no-reason", z, "zone %s removed without a reason" % z))
    el, rl = set(res["links_map"]), set(res["removed_links"])
    for l in links:
        if l not in el and l not in rl:
            problems.append(("link-lost", l, "input link %s -> %s is neither emitted nor listed as removed" % (l, links[l])))
    for l in el:
        if l not in links:
            problems.append(("link-invented", l, "emitted link %s is not in the source" % l))
        elif res["links_map"][l] != links[l]:
            problems.append(("link-retargeted", l, "link %s emitted with target %s, source says %s" % (l, res["links_map"][l], links[l])))
        elif res["links_map"][l] not in emitted:
            problems.append(("link-dangling", l, "emitted link %s points to %s, which is not emitted" % (l, res["links_map"][l])))
    for l in rl - set(links):
        problems.append(("removed-link-not-in-source", l, "removed_links lists %s, which is not an input link" % l))
    ep, rp = set(res["rules_map"]), set(res["removed_policies"])
    for p in pols:
        if p not in ep and p not in rp:
            problems.append(("policy-lost", p, "input policy %s is neither emitted nor listed as removed/unused" % p))
    for p in rp - set(pols):
        problems.append(("removed-policy-not-in-source", p, "removed_policies lists %s, which is not an input policy (reasons %r)" %
                         (p, res["removed_policies"][p])))
    for p, rs in res["removed_policies"].items():
        if not rs:
            problems.append(("policy-no-reason", p, "policy %s removed without a reason" % p))
    return problems


def py_zone_job(a):
    """Path P for one zone: ZoneSpecifier on the in-memory tables vs the zic oracle at every transition +-1 s and month starts."""
    from zonedb.zone_specifier import ZoneSpecifier
    info, odir, t0, t1, zone = a["info"], a["odir"], a["t0"], a["t1"], a["zone"]
    res = {"zone": zone, "diff": None, "n": 0, "transitions": 0, "harness": None}
    try:
        ora = tzoracle.ZoneOracle(os.path.join(odir, zone), t0, t1, zone)
    except (vt.HarnessError, FileNotFoundError) as e:
        res["harness"] = str(e)
        return res
    pts = set()
    for s in ora.segs[1:]:
        pts.update((s[0] - 1, s[0], s[0] + 1))
    y0 = (EPOCH_DT + dtm.timedelta(seconds=t0)).year
    y1 = (EPOCH_DT + dtm.timedelta(seconds=t1 - 1)).year
    for y in range(y0, y1 + 1):
        for m in range(1, 13):
            pts.add(tzoracle.t_of(y, m))
        pts.add(tzoracle.t_of(y + 1) - 1)
    res["transitions"] = len(ora.segs) - 1
    zs = ZoneSpecifier(info)
    for t in sorted(p for p in pts if t0 <= p < t1):
        want = ora.at(t)
        try:
            i = zs.get_timezone_info_for_seconds(t)
            got = (i.total_offset, 1 if i.dst_offset != 0 else 0, i.abbrev)
        except BaseException as e:
            got = ("EXC", type(e).__name__, str(e)[:100])
        res["n"] += 1
        if got != tuple(want):
            res["diff"] = {"t": t, "utc": (EPOCH_DT + dtm.timedelta(seconds=t)).isoformat() + "Z", "python": list(got), "zic": list(want)}
            break
    return res


def truncated_zones(res):
    """Zones / policies carrying a documented truncation note (compared separately / excluded, counted)."""
    out = set()
    for z, notes in res["notable_zones"].items():
        if any("truncat" in n.lower() for n in notes):
            out.add(z)
    tp = set(p for p, notes in res["notable_policies"].items() if any("truncat" in n.lower() for n in notes))
    if tp:
        for z, eras in res["zones_map"].items():
            if any(e.get("rules") in tp for e in eras):
                out.add(z)
    return out
