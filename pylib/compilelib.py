"""Running the repository's TZ compiler (tools/tzcompiler.py) on a source text and building the result."""
import json
import os
import shutil
import subprocess

import vt

TZ_FILES = ['africa', 'antarctica', 'asia', 'australasia', 'backward', 'etcetera', 'europe', 'northamerica', 'southamerica']
PY = "/venv/bin/python"


def write_input_dir(src_text, d):
    os.makedirs(d, exist_ok=True)
    for f in TZ_FILES:
        with open(os.path.join(d, f), "w") as fh:
            fh.write(src_text if f == "africa" else "")
    return d


def run_tzcompiler(input_dir, output_dir, scope, language, start_year=2000, until_year=2050, tz_version="2020d",
                   db_namespace=None, hashseed="0", actions="zonedb,zonelist,tzdb", repo=None, extra_args=()):
    """-> (rc, stderr_tail). Output files land in output_dir."""
    repo = repo or vt.REPO
    os.makedirs(output_dir, exist_ok=True)
    cmd = [PY, os.path.join(repo, "tools", "tzcompiler.py"), "--input_dir", input_dir, "--output_dir", output_dir,
           "--tz_version", tz_version, "--action", actions, "--language", language, "--scope", scope,
           "--start_year", str(start_year), "--until_year", str(until_year)] + list(extra_args)
    if db_namespace:
        cmd += ["--db_namespace", db_namespace]
    env = dict(os.environ)
    env["PYTHONHASHSEED"] = str(hashseed)
    env["PYTHONPATH"] = os.path.join(repo, "tools")
    env["PYTHONDONTWRITEBYTECODE"] = "1"
    p = subprocess.run(cmd, stdout=subprocess.PIPE, stderr=subprocess.PIPE, text=True, env=env, cwd=output_dir)
    return p.returncode, (p.stderr or "")[-3000:] + (p.stdout or "")[-1000:]


def compile_source(workdir, name, src_text, scope, language, **kw):
    """Convenience: write the input dir, run the compiler. -> dict(rc, log, outdir)"""
    ind = write_input_dir(src_text, os.path.join(workdir, name + ".in"))
    out = os.path.join(workdir, name + ".out")
    if os.path.exists(out):
        shutil.rmtree(out)
    rc, log = run_tzcompiler(ind, out, scope, language, **kw)
    return {"rc": rc, "log": log, "outdir": out, "indir": ind}


def load_tzdb_json(outdir):
    p = os.path.join(outdir, "tzdb.json")
    return json.load(open(p)) if os.path.exists(p) else None


def wrapper_header(outdir, path):
    with open(path, "w") as f:
        for h in ("zone_policies.h", "zone_infos.h", "zone_registry.h"):
            f.write('#include "%s"\n' % os.path.join(outdir, h))
    return path


def generated_sources(outdir):
    return [os.path.join(outdir, f) for f in ("zone_infos.cpp", "zone_policies.cpp", "zone_registry.cpp")]


class GeneratedDoesNotCompile(vt.HarnessError):
    """The C++ files written by tzcompiler.py were rejected by the C++ compiler (a finding for the properties about the
    generated tables, not a harness problem)."""


def build_with_generated(check_id, exe_name, driver, x_out=None, x_ns=None, b_out=None, b_ns=None, extra=(), extra_sources=(),
                         sanitize=False, opt="-O2", repo=None):
    """Build a driver (sweep.cpp / dumpdb.cpp) against generated databases (either may be None)."""
    d = vt.build_dir(check_id)
    flags = list(extra)
    srcs = list(extra_sources)
    if x_out:
        h = wrapper_header(x_out, os.path.join(d, "%s_x_all.h" % exe_name))
        flags += ["-DVDB_X=%s" % x_ns, '-DVDB_X_HEADER="%s"' % h]
        srcs += generated_sources(x_out)
    else:
        flags += ["-DVDB_NO_X=1"]
    if b_out:
        h = wrapper_header(b_out, os.path.join(d, "%s_b_all.h" % exe_name))
        flags += ["-DVDB_B=%s" % b_ns, '-DVDB_B_HEADER="%s"' % h]
        srcs += generated_sources(b_out)
    else:
        flags += ["-DVDB_NO_B=1"]
    try:
        return vt.build(check_id, exe_name, [driver], extra=flags, extra_sources=srcs, sanitize=sanitize, opt=opt, repo=repo)
    except vt.HarnessError as e:
        msg = str(e)
        for o in (x_out, b_out):
            if o and any((o + "/") in line and "error:" in line for line in msg.splitlines()):
                lines = [l for l in msg.splitlines() if "error:" in l]
                raise GeneratedDoesNotCompile("generated tables do not compile: " + " | ".join(l.replace(o + "/", "") for l in lines[:4]))
        raise
