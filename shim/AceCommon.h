// Host stand-in for the parts of AceCommon that AceTime 1.2.1 calls, written
// from AceCommon's documented behaviour. Trusted base (C15, C17 observe it).
#ifndef VERIF_SHIM_ACECOMMON_H
#define VERIF_SHIM_ACECOMMON_H
#include <stdint.h>
#include "Arduino.h"
namespace ace_common {
inline void printPad2To(Print& printer, uint8_t value, char padChar = ' ') {
  if (value < 10) printer.print(padChar);
  printer.print(value);
}
template <typename T> void incrementMod(T& d, T m) {
  d++;
  if (d >= m) d = 0;
}
template <typename T> void incrementModOffset(T& d, T m, T offset) {
  d -= offset;
  d++;
  if (d >= m) d = 0;
  d += offset;
}
inline int strcmp_PP(const char* a, const char* b) {
  if (a == b) return 0;
  if (a == nullptr) return -1;
  if (b == nullptr) return 1;
  while (true) {
    uint8_t ca = (uint8_t) *a++;
    uint8_t cb = (uint8_t) *b++;
    if (ca != cb) return (int) ca - (int) cb;
    if (ca == 0) return 0;
  }
}
inline const char* strchr_P(const char* s, int c) { return ::strchr(s, c); }
inline const char* strrchr_P(const char* s, int c) { return ::strrchr(s, c); }
class TimingStats {
  public:
    TimingStats() { reset(); }
    void reset() { mCount = 0; mMin = 0xFFFF; mMax = 0; mSum = 0; }
    void update(uint16_t d) { mCount++; mSum += d; if (d < mMin) mMin = d; if (d > mMax) mMax = d; }
    uint16_t getCount() const { return mCount; }
    uint16_t getMin() const { return mMin; }
    uint16_t getMax() const { return mMax; }
    uint16_t getAvg() const { return mCount ? mSum / mCount : 0; }
  private:
    uint16_t mCount; uint16_t mMin; uint16_t mMax; uint32_t mSum;
};
}
#endif
