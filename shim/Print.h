// Host stand-in for Arduino's Print: captures output into a std::string.
// Part of the trusted base of /verif (see DESIGN.md 1.1).
#ifndef VERIF_SHIM_PRINT_H
#define VERIF_SHIM_PRINT_H
#include <stdint.h>
#include <stddef.h>
#include <stdio.h>
#include <string>
class __FlashStringHelper;
#define DEC 10
#define HEX 16
class Print {
  public:
    std::string buf;
    virtual ~Print() {}
    virtual size_t write(uint8_t c) { buf.push_back((char) c); return 1; }
    size_t write(const char* s) { size_t n = 0; while (*s) { write((uint8_t) *s++); n++; } return n; }
    size_t print(const __FlashStringHelper* s) { return write((const char*) s); }
    size_t print(const char* s) { return write(s); }
    size_t print(char c) { return write((uint8_t) c); }
    size_t print(unsigned char v, int base = DEC) { return print((unsigned long) v, base); }
    size_t print(int v, int base = DEC) { return print((long) v, base); }
    size_t print(unsigned int v, int base = DEC) { return print((unsigned long) v, base); }
    size_t print(long v, int base = DEC) {
      char tmp[40];
      if (base == 16) snprintf(tmp, sizeof(tmp), "%lX", (unsigned long) v);
      else snprintf(tmp, sizeof(tmp), "%ld", v);
      return write(tmp);
    }
    size_t print(unsigned long v, int base = DEC) {
      char tmp[40];
      if (base == 16) snprintf(tmp, sizeof(tmp), "%lX", v);
      else snprintf(tmp, sizeof(tmp), "%lu", v);
      return write(tmp);
    }
    size_t println() { return write("\r\n"); }
    template <typename T> size_t println(T v) { size_t n = print(v); return n + println(); }
    void clear() { buf.clear(); }
};
#endif
