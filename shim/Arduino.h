// Host stand-in for Arduino.h.
#ifndef VERIF_SHIM_ARDUINO_H
#define VERIF_SHIM_ARDUINO_H
#include <stdint.h>
#include <stddef.h>
#include <string.h>
#include <stdlib.h>
#include "pgmspace.h"
#include "Print.h"
class __FlashStringHelper;
#define F(s) (reinterpret_cast<const __FlashStringHelper*>(s))
#define FPSTR(p) (reinterpret_cast<const __FlashStringHelper*>(p))
extern Print Serial;
#define SERIAL_PORT_MONITOR Serial
extern "C" unsigned long millis();
extern unsigned long verif_millis_value;   // settable by drivers
#endif
