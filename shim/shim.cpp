#include <Arduino.h>
Print Serial;
unsigned long verif_millis_value = 0;
extern "C" unsigned long millis() { return verif_millis_value; }
